module verif/harness

go 1.23

require (
	github.com/jessevdk/go-flags v0.0.0
	golang.org/x/sys v0.0.0-20210320140829-1e4c9ba3b0c4
	pgregory.net/rapid v1.3.0
)

replace github.com/jessevdk/go-flags => /repo
