package props

import (
	"bytes"
	"fmt"
	"reflect"
	"strconv"
	"strings"
	"testing"
	"unicode/utf8"

	flags "github.com/jessevdk/go-flags"
	"pgregory.net/rapid"
)

// C12: INI write/read round trip.

type C12Assign struct {
	Opt   string   `json:"opt"`
	Elems []string `json:"elems"` // Go-quoted element texts (byte-exact)
}

type C12Case struct {
	D       *Decl       `json:"decl"`
	Assign  []C12Assign `json:"assign"`
	IniOpts uint        `json:"ini_opts"`
}

var _ = Register("C12", func() interface{} { return new(C12Case) }, func(c interface{}) string { return c12Oracle(c.(*C12Case)) })

var c12Decl = &GenCfg{Depth: 2, Fanout: 2, MaxOpts: 4, MaxGroups: 2, NestGroups: 2, Kinds: append(append([]Kind{}, AllArgKinds...), KBool, KBoolSlice, KBoolPtr, KFuncS),
	Ns: true, Req: 0, Defaults: true, OptArg: true, Hidden: true, Desc: true, Bases: true, Aliases: true, SubOpt: 100, NonASCII: true, CmdPct: 60, InCode: 8, FieldPool: true, ViaAdd: 6, NsDelims: []string{"-", "::"}}

var c12Strings = []string{"", " ", " lead", "trail ", "\tlead", "\"quoted\"", "\"half", "half\"", "\"", ";semi", "#hash", "a=b", "=", "[sec]", "\x00", "line\nbreak", "cr\rx", "tab\tx",
	"é中", "\xff\xfe", "a\\b", "a\\\"b", "'", "k:v", ":", " nbsp", " ls", "x\u0085", "\\n", "true", "0", "; x = y", "value with  two  spaces"}

func c12String(t *rapid.T) string {
	switch rapid.IntRange(0, 9).Draw(t, "strClass") {
	case 0, 1, 2, 3:
		return rapid.SampledFrom(c12Strings).Draw(t, "pool")
	case 4:
		return string(rapid.SliceOfN(rapid.Byte(), 0, 24).Draw(t, "bytes"))
	case 5:
		if rapid.IntRange(0, 9).Draw(t, "hugeValue") == 0 {
			// a value longer than 64 KiB
			return strings.Repeat("0123456789abcdef", rapid.IntRange(4097, 5000).Draw(t, "hugeRep"))
		}
		return strings.Repeat(rapid.SampledFrom([]string{"x", "é", "ab ", "\""}).Draw(t, "unit"), rapid.IntRange(1200, 5000).Draw(t, "rep"))
	case 6:
		return rapid.SampledFrom(c12Strings).Draw(t, "a") + rapid.SampledFrom(c12Strings).Draw(t, "b")
	default:
		return rapid.String().Draw(t, "unicode")
	}
}

func c12ElemText(t *rapid.T, o *OptInfo) string {
	k := o.Kind
	if k.IsMap() {
		kk, vk := k.MapKV()
		var key, val string
		if kk == KString {
			// keys per the property's quantifier: non-empty, no ':', no surrounding blanks
			key = rapid.SampledFrom([]string{"k", "key", "a b", "é", "K2", "x=y", "semi;", "#h", "[b]", "q\"q",
				"\"lead", "\"", "\"both\"", "new\nline", "cr\rx", "tab\tx", "\x01ctl", "nul\x00", "\xff\xfe", "é\xffbad", "\u202ertl", "a\\b"}).Draw(t, "mapKey")
		} else if kk == KFloat64 {
			// (a NaN key can never be looked up again, not even by the program itself)
			key = rapid.SampledFrom([]string{"1.5", "2", "0.25", "-3", "10", "1e3", "-0.5"}).Draw(t, "floatKey")
		} else {
			key = genValidText(t, kk, o.Base)
		}
		if vk == KString {
			val = c12String(t)
		} else {
			val = genValidText(t, vk, o.Base)
		}
		return key + ":" + val
	}
	switch k.Elem() {
	case KString, KUpper:
		s := c12String(t)
		if k.Elem() == KUpper {
			s = strings.ReplaceAll(s, "!bad", "")
		}
		return s
	case KBool:
		return rapid.SampledFrom([]string{"true", "false"}).Draw(t, "bool")
	}
	return genValidText(t, k, o.Base)
}

func genC12(t *rapid.T) *C12Case {
	d := genDecl(t, c12Decl)
	// unique explicit ini-names and no-ini marks
	n := 0
	d.EachCmd(func(c *Cmd, _ []*Cmd) {
		c.G.EachGroup(func(g *Group, _ []*Group) {
			for i := range g.Options {
				n++
				mark := rapid.IntRange(0, 9).Draw(t, "iniMark")
				if g.Options[i].ViaAdd {
					mark = 9 // (ini-name and no-ini exist as tags only)
				}
				switch mark {
				case 0:
					g.Options[i].IniName = fmt.Sprintf("%s%d", rapid.SampledFrom([]string{"ini-key", "Key", "the.key", "é", "with space"}).Draw(t, "iniName"), n)
				case 1:
					g.Options[i].NoIni = true
				}
				if g.Options[i].Desc != "" && rapid.IntRange(0, 5).Draw(t, "multilineDesc") == 0 {
					g.Options[i].Desc += "\nsecond line = of the description\n[not a section]"
				}
			}
		})
	})
	c := &C12Case{D: d}
	for _, o := range d.AllOpts() {
		if o.Kind.IsFunc() || rapid.IntRange(0, 2).Draw(t, "assign") == 0 {
			continue
		}
		ne := 1
		if o.Kind.IsMulti() {
			ne = rapid.IntRange(1, 3).Draw(t, "nelems")
		}
		a := C12Assign{Opt: o.ID}
		for i := 0; i < ne; i++ {
			tx := c12ElemText(t, o)
			if _, ver := RefOne(o.Kind, o.Base, tx); ver != Accept && !o.Kind.IsFlag() {
				tx = genValidText(t, o.Kind, o.Base)
				if _, ver := RefOne(o.Kind, o.Base, tx); ver != Accept {
					continue
				}
			}
			a.Elems = append(a.Elems, strconv.Quote(tx))
		}
		if len(a.Elems) > 0 {
			c.Assign = append(c.Assign, a)
		}
	}
	c.IniOpts = uint(rapid.IntRange(0, 7).Draw(t, "iniOpts")) << 1
	return c
}

// c12Value builds the typed value of an assignment.
func c12Value(o *OptInfo, a *C12Assign) (interface{}, error) {
	var elems []interface{}
	for _, q := range a.Elems {
		tx, err := strconv.Unquote(q)
		if err != nil {
			return nil, err
		}
		if o.Kind.IsFlag() {
			elems = append(elems, tx == "true")
			continue
		}
		e, ver := RefOne(o.Kind, o.Base, tx)
		if ver != Accept {
			return nil, fmt.Errorf("text %q not accepted for %s", tx, o.Kind)
		}
		elems = append(elems, e)
	}
	if o.Kind.IsFlag() {
		return IniFinal(o, elems), nil
	}
	return Assemble(o.Kind, elems), nil
}

// c12Written: is the option part of the written interface (decided from the
// declaration, as documented: callbacks, hidden and no-ini options are skipped,
// as are hidden groups and hidden commands)?
func c12Written(o *OptInfo) bool {
	if o.Kind.IsFunc() || o.IsHidden() || o.NoIni {
		return false
	}
	if o.HiddenG {
		return false
	}
	for _, c := range o.Chain {
		if c.Hidden {
			return false
		}
	}
	return true
}

// c12Shadowed reports an option added with AddOption - it has no field name, so
// its INI key is its long name or, failing that, its short name - whose key is
// also a higher-ranking name of another option of the same command (field name
// or ini-name; for a short name also a long name): the reader then resolves the
// key to that other option (known finding F-C12-7).
func c12Shadowed(d *Decl) bool {
	all := d.AllOpts()
	for _, o := range all {
		if !o.ViaAdd {
			continue
		}
		key, byShort := o.NsLong, false
		if o.Long == "" {
			key, byShort = o.Short, true
		}
		for _, p := range all {
			if p.Opt == o.Opt || p.Cmd != o.Cmd {
				continue
			}
			if (!p.ViaAdd && p.Field == key) || strings.EqualFold(p.IniName, key) || (byShort && p.NsLong == key) {
				return true
			}
		}
	}
	return false
}

func c12Oracle(c *C12Case) string {
	st := S("C12")
	if Known("F-C12-7") && c12Shadowed(c.D) {
		st.Exclude("known finding F-C12-7: INI key of an AddOption option shadowed by a higher-ranking name of another option")
		return ""
	}
	// -0 and +0 are the same number: an omitted "-0" coming back as 0 is not a loss
	SignedZerosEqual = true
	defer func() { SignedZerosEqual = false }()
	defer guardCall("INI write/read round trip")()
	var b1 *Built
	if pm := Safely(func() { b1 = Build(c.D) }); pm != "" || b1.Err != nil {
		st.Label("skip: setup error")
		return ""
	}
	if pm := Safely(func() { b1.P.ParseArgs(nil) }); pm != "" {
		st.Label("skip: panic applying defaults (C04)")
		return ""
	}
	opts := map[string]*OptInfo{}
	for _, o := range c.D.AllOpts() {
		opts[o.ID] = o
	}
	careful, limit := false, false
	for i := range c.Assign {
		a := &c.Assign[i]
		o := opts[a.Opt]
		if o == nil {
			return "bad case: unknown option " + a.Opt
		}
		v, err := c12Value(o, a)
		if err != nil {
			return "bad case: " + err.Error()
		}
		b1.OptVal[o.ID].Set(reflect.ValueOf(v))
		for _, q := range a.Elems {
			tx, _ := strconv.Unquote(q)
			if tx == "" || tx != strings.TrimSpace(tx) || strings.ContainsAny(tx, "\";#=[") || !utf8.ValidString(tx) || len(tx) > 4096 || len(tx) != len([]rune(tx)) || strings.ContainsAny(tx, "\n\r\t\x00") {
				careful = true
			}
			if _, isInt := intBits[o.Kind.Elem()]; isInt {
				min, max := IntLimits(o.Kind.Elem())
				if tx == min.Text(baseOr10(o.Base)) || tx == max.Text(baseOr10(o.Base)) {
					limit = true
				}
			}
		}
	}
	// snapshot of the original values
	orig := map[string]interface{}{}
	for id, f := range b1.OptVal {
		if !opts[id].Kind.IsFunc() {
			orig[id] = f.Interface()
		}
	}
	var buf bytes.Buffer
	if pm := Safely(func() { flags.NewIniParser(b1.P).Write(&buf, flags.IniOptions(c.IniOpts)) }); pm != "" {
		return "IniParser.Write panicked: " + pm
	}
	text := buf.String()
	b2 := Build(c.D)
	ip := flags.NewIniParser(b2.P)
	var err error
	if pm := Safely(func() { err = ip.Parse(strings.NewReader(text)) }); pm != "" {
		return fmt.Sprintf("reading the written INI panicked:\n%s\n%s", trunc(text), pm)
	}
	if err != nil {
		return fmt.Sprintf("reading the written INI failed: %v\n--- written (options %d) ---\n%s", err, c.IniOpts, trunc(text))
	}
	if pm := Safely(func() { b2.P.ParseArgs(nil) }); pm != "" {
		st.Label("skip: panic applying defaults (C04)")
		return ""
	}
	omitted := false
	for _, o := range c.D.AllOpts() {
		if !c12Written(o) {
			continue
		}
		got := b2.OptVal[o.ID].Interface()
		if !ValEqual(got, orig[o.ID]) {
			return fmt.Sprintf("option %s (%s, field %s, ini-name %q, %s, defaults %q): wrote %s, read back %s\n--- written (options %d) ---\n%s", o.ID, o.Display(), o.Field, o.IniName, o.Kind, o.Defaults, ShowVal(orig[o.ID]), ShowVal(got), c.IniOpts, trunc(text))
		}
		name := o.Field
		if o.IniName != "" {
			name = o.IniName
		}
		if !strings.Contains(text, "\n"+name+" =") && !strings.HasPrefix(text, name+" =") {
			omitted = true
		}
	}
	st.Label(fmt.Sprintf("ini options %d", c.IniOpts))
	if careful {
		st.Label("value needing care (blank edge, quote, control, non-ASCII, invalid UTF-8, empty, > 4 kB)")
	}
	if limit {
		st.Label("numeric limit")
	}
	if (careful || limit) && omitted {
		st.NonTrivial(fmt.Sprintf("%d|%s", c.IniOpts, text), map[string]interface{}{"ini_opts": c.IniOpts, "written": trunc(text)})
	}
	return ""
}

func TestC12(t *testing.T) {
	S("C12").Rule = "declarations (nested namespaced groups, commands depth <= 2, ini-name / no-ini / hidden marks, default tags, multi-line descriptions; all non-callback option types) x values assigned to ~2/3 of the options after defaults were applied (strings over all of Unicode plus arbitrary bytes: edge blanks, quotes, ; # = [, control characters, empty, 1.2-5 kB; numbers at type limits in bases 2-36; NaN/Inf/-0; slices with empty elements; maps with keys per the statement's quantifier and unrestricted values) x all 8 IniOptions; oracle: Write -> bytes -> fresh parser over the same declaration -> IniParser.Parse must succeed -> ParseArgs(nil) applies defaults -> every written option equals the original. non-trivial: a value needing care or a numeric limit, and at least one option omitted/commented as default; distinct by (IniOptions, written text)"
	runProp(t, "C12", genC12, c12Oracle)
}
