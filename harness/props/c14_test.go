package props

import (
	"fmt"
	"strings"
	"testing"

	flags "github.com/jessevdk/go-flags"
	"pgregory.net/rapid"
)

// C14: INI reading is robust and pinpoints errors.

var iniDecl = &GenCfg{Depth: 2, Fanout: 2, MaxOpts: 4, MaxGroups: 2, NestGroups: 2, Kinds: append(append([]Kind{}, AllArgKinds...), KBool, KBoolSlice, KBoolPtr, KFunc0, KFuncS, KFuncI),
	Ns: true, Req: 0, Choices: true, Defaults: true, Hidden: true, Desc: true, Initial: true, Bases: true, Aliases: true, SubOpt: 100, NonASCII: true, CmdPct: 60,
	NsDelims: []string{"-", "::"}, ParserOpts: []flags.Options{flags.IgnoreUnknown}, FieldPool: true, InCode: 8, ViaAdd: 5}

type C14Case struct {
	D          *Decl     `json:"decl"`
	Lines      []IniLine `json:"lines"`
	Clean      string    `json:"clean"`
	Noisy      string    `json:"noisy"`
	NoiseKinds []string  `json:"noise_kinds,omitempty"`
	Faulty     string    `json:"faulty,omitempty"`
	FaultKind  string    `json:"fault_kind,omitempty"`
	FaultLine  int       `json:"fault_line,omitempty"`
	// AsDefaults: the file is read with IniParser.ParseAsDefaults set
	AsDefaults bool `json:"as_defaults,omitempty"`
}

var _ = Register("C14", func() interface{} { return new(C14Case) }, func(c interface{}) string { return c14Oracle(c.(*C14Case)) })

// iniSectionsFor lists the section spellings that address option o.
func iniSectionsFor(d *Decl, o *OptInfo) []string {
	var r []string
	path := ""
	for _, c := range o.Chain[1:] {
		if path != "" {
			path += "."
		}
		path += c.Name
	}
	if path == "" {
		r = append(r, "")
	} else {
		r = append(r, path)
	}
	// enclosing groups below the command's own group
	for _, g := range o.Groups {
		if g == &o.Cmd.G || g.Desc == "" {
			continue
		}
		if path == "" {
			r = append(r, g.Desc)
		} else {
			r = append(r, path+"."+g.Desc)
		}
	}
	return r
}

func randCase(t *rapid.T, s string) string {
	switch rapid.IntRange(0, 3).Draw(t, "case") {
	case 0:
		return strings.ToUpper(s)
	case 1:
		return strings.ToLower(s)
	}
	return s
}

// genIniLines draws entries that R resolves and accepts. forms: allow the
// non-canonical key naming forms (C13).
func genIniLines(t *rapid.T, d *Decl, max int, forms bool) []IniLine {
	opts := d.AllOpts()
	if len(opts) == 0 {
		return nil
	}
	n := rapid.IntRange(1, max).Draw(t, "nentries")
	type sec struct {
		name  string
		lines []IniLine
	}
	var secs []*sec
	find := func(name string) *sec {
		for _, s := range secs {
			if s.name == name {
				return s
			}
		}
		s := &sec{name: name}
		secs = append(secs, s)
		return s
	}
	for i := 0; i < n; i++ {
		o := opts[rapid.IntRange(0, len(opts)-1).Draw(t, "optIdx")]
		if o.NoIni {
			continue
		}
		sects := iniSectionsFor(d, o)
		section := rapid.SampledFrom(sects).Draw(t, "section")
		if section != "" && !strings.Contains(section, ".") && len(o.Chain) == 1 {
			section = randCase(t, section)
		}
		key := iniKeyOf(o)
		if o.IniName != "" {
			key = o.IniName
		}
		if forms {
			var ks []string
			if o.IniName != "" {
				ks = append(ks, o.IniName, randCase(t, o.IniName))
			}
			if o.Field != "" {
				ks = append(ks, o.Field)
			}
			if o.NsLong != "" {
				ks = append(ks, o.NsLong)
			}
			if o.Short != "" {
				ks = append(ks, o.Short)
			}
			key = rapid.SampledFrom(ks).Draw(t, "keyForm")
		}
		scope, ok := iniScope(d, section)
		if !ok {
			continue
		}
		target := iniResolve(scope, key)
		if target == nil || target.NoIni {
			continue
		}
		// value valid for the option the entry really addresses
		var raw string
		switch {
		case target.Kind == KFunc0:
			raw = ""
		case target.Kind.IsFlag():
			raw = rapid.SampledFrom([]string{"", "true", "false", "1", "0", "", "True"}).Draw(t, "flagVal")
		default:
			v := ""
			if len(target.Choices) > 0 {
				v = rapid.SampledFrom(target.Choices).Draw(t, "choice")
			} else {
				v = genValidText(t, target.Kind, target.Base)
			}
			raw = iniValueFor(target, v, rapid.IntRange(0, 5).Draw(t, "forceQuote") == 0)
		}
		l := IniLine{Section: section, Key: key, Value: raw}
		if r := RefIni(d, []IniLine{l}); r.ErrKind != "" {
			continue
		}
		s := find(section)
		s.lines = append(s.lines, l)
	}
	// the header-less section can only come first
	var out []IniLine
	for _, s := range secs {
		if s.name == "" {
			out = append(out, s.lines...)
		}
	}
	for _, s := range secs {
		if s.name != "" {
			out = append(out, s.lines...)
		}
	}
	return out
}

var noiseKinds = []string{"indent of >= 4095 blanks", "blank", "semicolon comment", "hash comment", "long comment", "indent", "trailing blanks", "spaces around =", "no spaces around =", "crlf", "header padding", "tab indent", "comment of 5 MiB"}

// addNoise rewrites physical lines without changing their meaning.
func addNoise(t *rapid.T, phys []string) ([]string, []string) {
	var out []string
	kinds := map[string]bool{}
	hugeAt := -1
	if len(phys) > 0 && rapid.IntRange(0, 149).Draw(t, "hugeComment") == 0 {
		hugeAt = rapid.IntRange(0, len(phys)-1).Draw(t, "hugeAt")
	}
	for li, l := range phys {
		if li == hugeAt {
			// "arbitrarily long lines": far beyond any buffer size one might pick
			out = append(out, "# "+strings.Repeat("long line ", (5<<20)/10))
			kinds["comment of 5 MiB"] = true
		}
		for rapid.IntRange(0, 9).Draw(t, "insertNoise") < 3 {
			switch rapid.IntRange(0, 3).Draw(t, "noiseLine") {
			case 0:
				out = append(out, rapid.SampledFrom([]string{"", "   ", "\t"}).Draw(t, "blank"))
				kinds["blank"] = true
			case 1:
				out = append(out, rapid.SampledFrom([]string{"; comment", ";", "  ; key = value", ";[section]", "; see C:\\data\\", "; continued? \\"}).Draw(t, "sc"))
				kinds["semicolon comment"] = true
			case 2:
				out = append(out, rapid.SampledFrom([]string{"# comment", "#", "\t# key = value", "#[x", "# trailing backslash \\"}).Draw(t, "hc"))
				kinds["hash comment"] = true
			case 3:
				out = append(out, "; "+strings.Repeat("long comment ", 5500))
				kinds["long comment"] = true
			}
		}
		isHeader := strings.HasPrefix(l, "[")
		if !isHeader {
			if i := strings.Index(l, " = "); i >= 0 {
				switch rapid.IntRange(0, 3).Draw(t, "eqStyle") {
				case 0:
					l = l[:i] + "   =\t " + l[i+3:]
					kinds["spaces around ="] = true
				case 1:
					l = l[:i] + "=" + l[i+3:]
					kinds["no spaces around ="] = true
				}
			}
		} else if rapid.Bool().Draw(t, "padHeader") {
			l = "[ " + l[1:len(l)-1] + "\t ]"
			kinds["header padding"] = true
		}
		if rapid.IntRange(0, 39).Draw(t, "hugeIndent") == 0 {
			// indentation longer than the reader's buffer
			l = strings.Repeat(" ", rapid.SampledFrom([]int{4095, 4096, 4097, 5000, 8192}).Draw(t, "indentLen")) + l
			kinds["indent of >= 4095 blanks"] = true
		}
		switch rapid.IntRange(0, 4).Draw(t, "decor") {
		case 0:
			l = "   " + l
			kinds["indent"] = true
		case 1:
			l = l + "  \t"
			kinds["trailing blanks"] = true
		case 2:
			l = "\t" + l + " "
			kinds["tab indent"] = true
		}
		out = append(out, l)
	}
	var ks []string
	for _, k := range noiseKinds {
		if kinds[k] {
			ks = append(ks, k)
		}
	}
	return out, ks
}

func joinLines(t *rapid.T, phys []string, crlf bool) string {
	var sb strings.Builder
	for _, l := range phys {
		sb.WriteString(l)
		if crlf {
			sb.WriteString("\r\n")
		} else {
			sb.WriteString("\n")
		}
	}
	return sb.String()
}

func genC14(t *rapid.T) *C14Case {
	d := genDecl(t, iniDecl)
	c := &C14Case{D: d, AsDefaults: rapid.IntRange(0, 3).Draw(t, "asDefaults") == 0}
	c.Lines = genIniLines(t, d, 8, false)
	// optionally end the file with a line whose length sits at a read-buffer
	// boundary (the reader reassembles lines from 4096-byte chunks)
	boundary := 0
	if rapid.IntRange(0, 3).Draw(t, "boundaryLine") == 0 {
		section := ""
		if len(c.Lines) > 0 {
			section = c.Lines[len(c.Lines)-1].Section
		}
		if scope, ok := iniScope(d, section); ok {
			var cands []*OptInfo
			for _, o := range scope {
				if (o.Kind == KString || o.Kind == KStringSlice || o.Kind == KStringPtr) && !o.NoIni && o.IniName == "" && len(o.Choices) == 0 && iniResolve(scope, iniKeyOf(o)) == o {
					cands = append(cands, o)
				}
			}
			if len(cands) > 0 {
				o := cands[rapid.IntRange(0, len(cands)-1).Draw(t, "boundaryOpt")]
				boundary = rapid.SampledFrom([]int{4095, 4096, 4097, 8191, 8192, 8193, 12288, 65536, 70000}).Draw(t, "boundaryLen")
				head := iniKeyOf(o) + " = "
				c.Lines = append(c.Lines, IniLine{Section: section, Key: iniKeyOf(o), Value: strings.Repeat("x", boundary-len(head))})
			}
		}
	}
	clean, _ := RenderIni(c.Lines)
	c.Clean = clean
	phys := strings.Split(strings.TrimSuffix(clean, "\n"), "\n")
	if clean == "" {
		phys = nil
	}
	noisy, kinds := addNoise(t, phys)
	crlf := rapid.IntRange(0, 3).Draw(t, "crlf") == 0
	if crlf {
		kinds = append(kinds, "crlf")
	}
	if boundary > 0 {
		// keep the boundary line byte-exact (no decoration) as the last line
		noisy[len(noisy)-1] = phys[len(phys)-1]
		kinds = append(kinds, fmt.Sprintf("last line of %d bytes", boundary))
	}
	c.NoiseKinds = kinds
	c.Noisy = joinLines(t, noisy, crlf)
	if rapid.IntRange(0, 2).Draw(t, "noFinalNewline") == 0 && len(noisy) > 0 {
		c.Noisy = strings.TrimSuffix(strings.TrimSuffix(c.Noisy, "\n"), "\r")
		c.NoiseKinds = append(c.NoiseKinds, "no newline at end of file")
	}
	if !rapid.Bool().Draw(t, "withFault") {
		return c
	}
	// one faulty line at a random position of the noisy file
	// section context per physical position
	pos := rapid.IntRange(0, len(noisy)).Draw(t, "faultPos")
	section := ""
	for _, l := range noisy[:pos] {
		tl := strings.TrimSpace(l)
		if strings.HasPrefix(tl, "[") && strings.HasSuffix(tl, "]") {
			section = strings.TrimSpace(tl[1 : len(tl)-1])
		}
	}
	scope, _ := iniScope(d, section)
	var faultLines []string
	kind := rapid.SampledFrom([]string{"no equals", "unterminated header", "empty header", "unterminated quote", "bad map quoting", "unknown key", "empty key", "unconvertible value", "unknown section"}).Draw(t, "faultKind")
	switch kind {
	case "no equals":
		faultLines = []string{rapid.SampledFrom([]string{"justaword", "key value", "key : value", "]"}).Draw(t, "noeq")}
	case "unterminated header":
		faultLines = []string{rapid.SampledFrom([]string{"[unterminated", "[a] b", "[x]]y"}).Draw(t, "uh")}
	case "empty header":
		faultLines = []string{rapid.SampledFrom([]string{"[]", "[ ]", "[\t]"}).Draw(t, "eh")}
	case "unterminated quote":
		faultLines = []string{rapid.SampledFrom([]string{"anykey = \"unterminated", "k = \"a\"b\"", "k = \"\\q\"", "k = \""}).Draw(t, "uq")}
	case "bad map quoting":
		var m *OptInfo
		for _, o := range scope {
			if o.Kind.IsMap() && !o.NoIni && iniResolve(scope, iniKeyOf(o)) == o && o.IniName == "" {
				m = o
			}
		}
		if m == nil {
			return c
		}
		faultLines = []string{iniKeyOf(m) + " = k:\"bad"}
		// (for a map with a numeric key type: a key that is no number, beside a fine value)
		if kk, vk := m.Kind.MapKV(); kk != KString && vk == KString && rapid.Bool().Draw(t, "badMapKey") {
			faultLines = []string{iniKeyOf(m) + " = ht!tp:80"}
		}
	case "unknown key":
		var names []string
		for _, o := range scope {
			names = append(names, iniKeyOf(o)+"x", strings.ToLower(iniKeyOf(o))+"_", "x"+o.NsLong)
		}
		// names of options that exist elsewhere in the tree (other groups, commands)
		// but not in the scope this section addresses
		for _, o := range d.AllOpts() {
			names = append(names, iniKeyOf(o))
			if o.NsLong != "" {
				names = append(names, o.NsLong)
			}
			if o.IniName != "" {
				names = append(names, o.IniName)
			}
		}
		names = append(names, "nosuchkey", "no.such", "ß")
		var ok []string
		for _, n := range names {
			if iniResolve(scope, n) == nil && !strings.ContainsAny(n, "=[;#") {
				ok = append(ok, n)
			}
		}
		faultLines = []string{rapid.SampledFrom(ok).Draw(t, "uk") + " = 1"}
	case "empty key":
		faultLines = []string{rapid.SampledFrom([]string{"= 5", " = x", "=", "=true"}).Draw(t, "ek")}
	case "unconvertible value":
		var cands []*OptInfo
		for _, o := range scope {
			if o.NoIni || o.IniName != "" || iniResolve(scope, iniKeyOf(o)) != o {
				continue
			}
			if o.Kind.IsFlag() || genInvalidTextPossible(o.Kind) {
				cands = append(cands, o)
			}
		}
		if len(cands) == 0 {
			return c
		}
		o := cands[rapid.IntRange(0, len(cands)-1).Draw(t, "ucOpt")]
		bad := "maybe"
		if !o.Kind.IsFlag() {
			bad = genInvalidText(t, o.Kind, o.Base)
			if bad != strings.TrimSpace(bad) || strings.HasPrefix(bad, "\"") {
				bad = "x" + strings.TrimSpace(bad) + "!bad"
			}
		} else if o.Kind == KFunc0 {
			bad = "x"
		}
		if r := RefIni(d, []IniLine{{Section: section, Key: iniKeyOf(o), Value: bad}}); r.ErrKind != "bad-value" {
			return c
		}
		faultLines = []string{iniKeyOf(o) + " = " + bad}
	case "unknown section":
		// keep the meaning of the following lines: only before a header or at the end
		for pos < len(noisy) && !strings.HasPrefix(strings.TrimSpace(noisy[pos]), "[") {
			pos++
		}
		faultLines = []string{"[No Such Section]", "somekey = 1"}
		if rapid.Bool().Draw(t, "emptyUnknownSection") {
			faultLines = faultLines[:1]
		}
	}
	withFault := append(append(append([]string{}, noisy[:pos]...), faultLines...), noisy[pos:]...)
	c.Faulty = joinLines(t, withFault, crlf)
	c.FaultKind = kind
	c.FaultLine = pos + 1
	if kind == "unknown section" {
		c.FaultLine = pos + 1 // the header line (ErrUnknownGroup carries no line)
	}
	return c
}

func genInvalidTextPossible(k Kind) bool {
	switch k.Elem() {
	case KString, KComp:
		return k.IsMap() && k != KMapSS
	}
	if k == KMapSS || k == KFuncS {
		return false
	}
	return true
}

func iniFields(b *Built) string {
	var sb strings.Builder
	for _, o := range b.D.AllOpts() {
		if o.Kind.IsFunc() {
			continue
		}
		sb.WriteString(o.ID + "=" + ShowVal(b.OptVal[o.ID].Interface()) + ";")
	}
	fmt.Fprintf(&sb, "cb=%v", b.CbLog)
	return sb.String()
}

func c14Oracle(c *C14Case) string {
	st := S("C14")
	a := RunIniRead(c.D, c.Clean, c.AsDefaults)
	if a.Panic != "" {
		return fmt.Sprintf("INI reader panicked on\n%s\n%s", trunc(c.Clean), a.Panic)
	}
	if a.B == nil || a.B.Err != nil {
		st.Label("skip: setup error")
		return ""
	}
	b := RunIniRead(c.D, c.Noisy, c.AsDefaults)
	if b.Panic != "" {
		return fmt.Sprintf("INI reader panicked on\n%s\n%s", trunc(c.Noisy), b.Panic)
	}
	if a.Err != nil {
		// R accepts the file; whether the reader should is C13's subject
		st.Label("skip: clean file rejected")
	} else {
		if b.Err != nil {
			return fmt.Sprintf("noise (%v) changed the meaning: clean file accepted, noisy file rejected with %v\n--- noisy ---\n%s", c.NoiseKinds, b.Err, trunc(c.Noisy))
		}
		if fa, fb := iniFields(a.B), iniFields(b.B); fa != fb {
			return fmt.Sprintf("noise (%v) changed the meaning:\n clean: %s\n noisy: %s\n--- noisy ---\n%s", c.NoiseKinds, fa, fb, trunc(c.Noisy))
		}
		nsec := map[string]bool{}
		for _, l := range c.Lines {
			nsec[l.Section] = true
		}
		if len(c.Lines) >= 3 && len(nsec) >= 2 && len(c.NoiseKinds) >= 2 {
			st.NonTrivial("noise|"+c.Noisy+declSig(c.D), map[string]interface{}{"noise": c.NoiseKinds, "file": trunc(c.Noisy)})
		}
		st.Label("noise invariance checked")
	}
	if c.Faulty == "" {
		return ""
	}
	st.Eval() // the faulty variant is a second evaluation of this case
	f := RunIniRead(c.D, c.Faulty, c.AsDefaults)
	if f.Panic != "" {
		return fmt.Sprintf("INI reader panicked on fault %q:\n%s\n%s", c.FaultKind, trunc(c.Faulty), f.Panic)
	}
	ignorable := c.FaultKind == "unknown key" || c.FaultKind == "empty key" || c.FaultKind == "unknown section"
	st.Label("fault: " + c.FaultKind)
	posClass := "middle"
	if c.FaultLine == 1 {
		posClass = "first line"
	}
	st.NonTrivial(fmt.Sprintf("fault|%s|%s|%v|%v", c.FaultKind, posClass, c.NoiseKinds, c.D.Has(flags.IgnoreUnknown)), map[string]interface{}{"fault": c.FaultKind, "line": c.FaultLine, "file": trunc(c.Faulty)})
	if ignorable && c.D.Has(flags.IgnoreUnknown) {
		if f.Err != nil {
			return fmt.Sprintf("IgnoreUnknown: fault %q at line %d should be skipped, got error %v\n%s", c.FaultKind, c.FaultLine, f.Err, trunc(c.Faulty))
		}
		if a.Err == nil {
			if fa, ff := iniFields(a.B), iniFields(f.B); fa != ff {
				return fmt.Sprintf("IgnoreUnknown: skipping fault %q at line %d changed what the other lines mean:\n without: %s\n with:    %s\n%s", c.FaultKind, c.FaultLine, fa, ff, trunc(c.Faulty))
			}
		}
		return ""
	}
	if f.Err == nil {
		return fmt.Sprintf("fault %q at line %d was silently accepted (fields: %s)\n%s", c.FaultKind, c.FaultLine, iniFields(f.B), trunc(c.Faulty))
	}
	if c.FaultKind == "unknown section" {
		fe := FlagsErr(f.Err)
		if fe == nil || fe.Type != flags.ErrUnknownGroup {
			return fmt.Sprintf("unknown section: expected ErrUnknownGroup, got %T %v", f.Err, f.Err)
		}
		return ""
	}
	ie, ok := f.Err.(*flags.IniError)
	if !ok {
		return fmt.Sprintf("fault %q at line %d: expected *IniError, got %T %v\n%s", c.FaultKind, c.FaultLine, f.Err, f.Err, trunc(c.Faulty))
	}
	if int(ie.LineNumber) != c.FaultLine {
		return fmt.Sprintf("fault %q is on line %d but the error reports line %d (%s)\n%s", c.FaultKind, c.FaultLine, ie.LineNumber, ie.Message, trunc(c.Faulty))
	}
	return ""
}

func TestC14(t *testing.T) {
	S("C14").Rule = "declarations (all option types, nested namespaced groups, commands depth <= 2) x a valid INI file of 1-8 entries in several sections (R resolves and accepts every entry) x noise (blank lines, ; and # comments, a 70 kB comment line, indentation, trailing blanks, blanks or none around =, padded headers, CRLF, no newline at end of file, a last line of exactly 4095..70000 bytes) x optionally exactly one faulty line at a random position (no '=', malformed/empty header, bad quoting, bad map value quoting, unknown key, empty key, unconvertible value, unknown section) x IgnoreUnknown on/off; oracle: no panic; fields after noisy file == after clean file (metamorphic); fault => *IniError with the 1-based line number of the faulty line, ErrUnknownGroup for a section, skipped under IgnoreUnknown with every other entry applied. non-trivial: >= 3 entries in >= 2 sections with >= 2 noise kinds, or a fault (distinct by kind, position class, noise kinds, policy)"
	runProp(t, "C14", genC14, c14Oracle)
}

// FuzzIni: arbitrary bytes as INI input.
func FuzzIni(f *testing.F) {
	for i, s := range []string{"", "a = b", "[x]\na=1", "[Application Options]\n; c\nF1 = 2\n", "k = \"q\"", "m = k:\"v\"", "m = k:", "= 5", "[", "[]", "x", "a=\"", "[a.b]\r\nv = 1\r\n", "#", ";", "a = b = c", "\xff\xfe = \x00"} {
		f.Add(uint8(i), []byte(s))
	}
	decls := fixedDecls()
	f.Fuzz(func(t *testing.T, di uint8, raw []byte) {
		d0 := decls[int(di>>1)%len(decls)]
		d := *d0
		d.Opts = 0
		if di&1 == 1 {
			d.Opts = uint(flags.IgnoreUnknown)
		}
		S("C14").Eval()
		r := RunIniRead(&d, string(raw), false)
		msg := ""
		if r.Panic != "" {
			msg = fmt.Sprintf("INI reader panicked on %q: %s", trunc(string(raw)), r.Panic)
		} else if r.Err != nil {
			if _, ok := r.Err.(*flags.IniError); !ok && FlagsErr(r.Err) == nil {
				msg = fmt.Sprintf("INI reader returned %T %v (neither *IniError nor *flags.Error)", r.Err, r.Err)
			}
		}
		if msg != "" {
			c := &C14Case{D: &d, Clean: string(raw), Noisy: string(raw)}
			RecordFail("C14", c, msg)
			t.Fatal(msg)
		}
	})
}
