package props

import (
	"fmt"
	"testing"

	flags "github.com/jessevdk/go-flags"
	"pgregory.net/rapid"
)

// C08: command selection and option scoping.

var c08Decl = &GenCfg{Depth: 4, Fanout: 3, MaxOpts: 3, MaxGroups: 2, NestGroups: 1, Kinds: []Kind{KBool, KString, KInt, KStringSlice, KBoolSlice, KMapSS, KFuncS, KTri, KToggle},
	Pos: true, PosPct: 12, Ns: true, Req: 3, OptArg: true, Aliases: true, SubOpt: 30, NonASCII: true, Defaults: true, CmdPct: 92, Hidden: true, ViaAdd: 3,
	ParserOpts: []flags.Options{flags.HelpFlag, flags.PassDoubleDash, flags.PassAfterNonOption}}

var c08Argv = &ArgvCfg{MaxItems: 2, WOpt: 55, WCluster: 8, WCmd: 8, WPlain: 5, WTerm: 1, WUnknown: 3, WJunk: 1, WRepeat: 15, BadVal: 1, Quote: 4}

// C08Case: a parse case plus an optional metamorphic variant of its argv.
type C08Case struct {
	ParseCase
	Variant     []string `json:"variant,omitempty"`
	VariantKind string   `json:"variant_kind,omitempty"`
}

var _ = Register("C08", func() interface{} { return new(C08Case) }, func(c interface{}) string { return c08Oracle(c.(*C08Case)) })

// outcome summarises a real parse for metamorphic comparison.
func realOutcome(d *Decl, rr *RealResult) string {
	if rr.Panic != "" {
		return "panic"
	}
	if rr.Err != nil {
		if fe := FlagsErr(rr.Err); fe != nil && fe.Type != flags.ErrHelp {
			return fmt.Sprintf("error %v: %s", fe.Type, fe.Message)
		} else if fe != nil {
			return "help"
		}
		return "error " + rr.Err.Error()
	}
	s := fmt.Sprintf("ok rest=%q chain=%q cb=%v exec=%v;", rr.Rest, rr.B.ActiveChain(), rr.B.CbLog, rr.B.ExecLog)
	for _, o := range d.AllOpts() {
		if o.Kind.IsFunc() {
			continue
		}
		s += o.ID + "=" + ShowVal(rr.B.OptVal[o.ID].Interface()) + ";"
	}
	for _, k := range sortedKeys(rr.B.PosVal) {
		s += k + "=" + ShowVal(rr.B.PosVal[k].Interface()) + ";"
	}
	return s
}

// clashCluster: a cluster token whose first letter is declared differently at two
// levels of the active chain (flag at one level, argument-taking at another).
func clashCluster(t *rapid.T, d *Decl, args []string) []string {
	ws, ok := WalkPrefix(d, args)
	if !ok || len(ws.Chain) < 2 {
		return nil
	}
	var cands []string
	for i, cm := range ws.Chain {
		for _, o := range d.CmdOpts(cm, ws.Chain[:i+1]) {
			if o.Short == "" {
				continue
			}
			in := ws.Short[o.Short]
			if in == nil || in.ID == o.ID {
				continue
			}
			// o is shadowed by in; interesting when their arities differ
			if in.Kind.IsFlag() != o.Kind.IsFlag() {
				cands = append(cands, o.Short)
			}
		}
	}
	if len(cands) == 0 {
		return nil
	}
	sortStrings(cands)
	s := rapid.SampledFrom(cands).Draw(t, "clashShort")
	tail := rapid.SampledFrom([]string{s, "x", "v", "1", "=1", ""}).Draw(t, "clashTail")
	return []string{"-" + s + tail}
}

func genC08(t *rapid.T) *C08Case {
	pc := genParseCase(t, c08Decl, c08Argv)
	if extra := clashCluster(t, pc.D, pc.Args); extra != nil && rapid.Bool().Draw(t, "useClash") {
		pc.Args = append(pc.Args, extra...)
	}
	c := &C08Case{ParseCase: *pc}
	ref := Ref(&RefInput{D: c.D, Args: c.Args})
	if ref.Undetermined != "" {
		return c
	}
	// command tokens recognised by R
	var cmdIdx []int
	for i, cl := range ref.Class {
		if cl == TcCommand {
			cmdIdx = append(cmdIdx, i)
		}
	}
	if len(cmdIdx) == 0 {
		return c
	}
	switch rapid.IntRange(0, 2).Draw(t, "variantKind") {
	case 1:
		// alias <-> name: replace one command word by another word of the same command
		k := rapid.IntRange(0, len(cmdIdx)-1).Draw(t, "aliasAt")
		cm := ref.Chain[k]
		words := append([]string{cm.Name}, cm.Aliases...)
		w := rapid.SampledFrom(words).Draw(t, "otherWord")
		if w != c.Args[cmdIdx[k]] {
			c.Variant = append([]string{}, c.Args...)
			c.Variant[cmdIdx[k]] = w
			c.VariantKind = "alias"
		}
	case 2:
		// move an ancestor option occurrence standing right before a command
		// word to right after it
		k := rapid.IntRange(0, len(cmdIdx)-1).Draw(t, "moveAt")
		ci := cmdIdx[k]
		// find the occurrence ending at ci-1: either one option token, or
		// option token + its separate argument
		start := -1
		if ci >= 1 && ref.Class[ci-1] == TcOption {
			start = ci - 1
		} else if ci >= 2 && ref.Class[ci-1] == TcOptArg && ref.Class[ci-2] == TcOption {
			start = ci - 2
		}
		if start >= 0 {
			v := append([]string{}, c.Args[:start]...)
			v = append(v, c.Args[ci])
			v = append(v, c.Args[start:ci]...)
			v = append(v, c.Args[ci+1:]...)
			c.Variant = v
			c.VariantKind = "commute"
		}
	}
	return c
}

func c08Oracle(c *C08Case) string {
	st := S("C08")
	ref := Ref(&RefInput{D: c.D, Args: c.Args})
	if ref.Undetermined != "" {
		st.Label("skip: " + ref.Undetermined)
		return ""
	}
	rr := RunReal(c.D, c.Args, nil, nil)
	if rr.Panic != "" || rr.SetupErr != nil {
		st.Label("skip: panic or setup error")
		return ""
	}
	// (a) against R: chain, scoped values, command errors
	cmdErr := func(e *RefErr) bool {
		return e != nil && len(e.Types) == 1 && (e.Types[0] == flags.ErrCommandRequired || e.Types[0] == flags.ErrUnknownCommand)
	}
	switch {
	case ref.Err == nil && rr.Err == nil:
		st.Label("success")
		if got, want := rr.B.ActiveChain(), chainNames(ref.Chain); !strSliceEq(got, want) {
			return fmt.Sprintf("active command chain %q, expected %q", got, want)
		}
		if m := CheckValues(rr, ref); m != "" {
			return "scoping: " + m
		}
	case cmdErr(ref.Err):
		st.Label("command error expected: " + ref.Err.Types[0].String())
		if rr.Err == nil {
			return fmt.Sprintf("parse succeeded but %v was expected (%s)", ref.Err.Types[0], ref.Err.Why)
		}
		if m := CheckErrType(rr.Err, ref.Err); m != "" {
			return m
		}
	case ref.Err == nil && rr.Err != nil:
		if fe := FlagsErr(rr.Err); fe != nil && (fe.Type == flags.ErrCommandRequired || fe.Type == flags.ErrUnknownCommand || fe.Type == flags.ErrUnknownFlag) {
			return fmt.Sprintf("unexpected %v: %s (expected success with chain %q)", fe.Type, fe.Message, chainNames(ref.Chain))
		}
		st.Label("skip: real error outside C08")
	default:
		st.Label("other error expected")
		if ref.Err != nil && len(ref.Err.Types) == 1 && ref.Err.Types[0] == flags.ErrUnknownFlag {
			// an option of a command not (yet) active must be unknown
			if rr.Err == nil {
				return fmt.Sprintf("option %q is not in scope at its position but the parse succeeded", ref.Err.Name)
			}
		}
	}
	// classification
	depth := len(ref.Chain)
	aliasUsed, clash, ancestorAfter := false, false, false
	k := 0
	for i, cl := range ref.Class {
		if cl == TcCommand {
			if k < len(ref.Chain) && c.Args[i] != ref.Chain[k].Name {
				aliasUsed = true
			}
			k++
		}
	}
	if ref.Err == nil {
		all := c.D.AllOpts()
		for _, o := range all {
			if ref.Occ[o.ID] == 0 {
				continue
			}
			// ancestor option occurring although a deeper command is active
			if len(o.Chain) < depth+1 && depth >= 2 {
				ancestorAfter = true
			}
			for _, p := range all {
				if p.Opt != o.Opt && p.Cmd != o.Cmd && ((o.Short != "" && p.Short == o.Short) || (o.NsLong != "" && p.NsLong == o.NsLong)) {
					clash = true
				}
			}
		}
	}
	for kk, v := range map[string]bool{"alias used": aliasUsed, "name clash between levels exercised": clash, "ancestor option with depth >= 2": ancestorAfter} {
		if v {
			st.Label(kk)
		}
	}
	st.Label(fmt.Sprintf("chain depth %d", depth))
	if depth >= 2 || aliasUsed || clash {
		st.NonTrivial(c.Key()+"|"+c.VariantKind, map[string]interface{}{"args": c.Args, "variant": c.Variant, "chain": chainNames(ref.Chain)})
	}
	// (b) metamorphic, model-free
	if c.Variant != nil {
		if c.VariantKind == "commute" {
			// admissible only if the moved option's name denotes the same option
			// before and after the command word (no re-declaration on the way);
			// decided by R's scoping of both vectors
			ref2 := Ref(&RefInput{D: c.D, Args: c.Variant})
			adm := ref2.Undetermined == "" && (ref.Err == nil) == (ref2.Err == nil)
			if adm {
				// locate the moved option token: first index where the vectors differ
				i := 0
				for i < len(c.Args) && c.Args[i] == c.Variant[i] {
					i++
				}
				// c.Args[i] is the option token; in the variant it stands at i+1
				adm = i < len(c.Args) && fmt.Sprint(ref.TokOpt[i]) == fmt.Sprint(ref2.TokOpt[i+1]) && len(ref.TokOpt[i]) > 0
			}
			if !adm {
				st.Label("commute variant not admissible (name re-declared or meaning changed)")
				return ""
			}
		}
		rr2 := RunReal(c.D, c.Variant, nil, nil)
		o1, o2 := realOutcome(c.D, rr), realOutcome(c.D, rr2)
		st.Label("metamorphic " + c.VariantKind)
		if o1 != o2 {
			return fmt.Sprintf("%s variant changes the outcome:\n argv    %q -> %s\n variant %q -> %s", c.VariantKind, c.Args, o1, c.Variant, o2)
		}
	}
	return ""
}

func TestC08(t *testing.T) {
	S("C08").Rule = "command trees (depth <= 4, fan-out <= 3, aliases at every depth, optional-subcommand marks, option name clashes between levels, tag and programmatic declaration) x planned argv interleaving command words with options of every level; oracle: (a) R: active chain, scoped values, ErrCommandRequired/ErrUnknownCommand, out-of-scope options rejected; (b) metamorphic on the real parser only: alias<->name substitution and moving an ancestor option across a command word leave the outcome unchanged. non-trivial: chain depth >= 2, alias used, or a name clash exercised; distinct by (declaration signature, argv, variant kind)"
	runProp(t, "C08", genC08, c08Oracle)
}
