package props

// Terminal width control for WriteHelp: a real pseudo-terminal is installed as
// fd 0 and resized per case (the library asks fd 0 for TIOCGWINSZ).

import (
	"fmt"
	"os"
	"sync"
	"syscall"

	"golang.org/x/sys/unix"
)

var (
	ptyOnce   sync.Once
	ptyOK     bool
	ptyMaster *os.File
	ptySlave  *os.File
	ptyErr    error
)

func initPty() {
	m, err := os.OpenFile("/dev/ptmx", os.O_RDWR|syscall.O_NOCTTY, 0)
	if err != nil {
		ptyErr = err
		return
	}
	if err := unix.IoctlSetPointerInt(int(m.Fd()), unix.TIOCSPTLCK, 0); err != nil {
		ptyErr = err
		return
	}
	n, err := unix.IoctlGetInt(int(m.Fd()), unix.TIOCGPTN)
	if err != nil {
		ptyErr = err
		return
	}
	s, err := os.OpenFile(fmt.Sprintf("/dev/pts/%d", n), os.O_RDWR|syscall.O_NOCTTY, 0)
	if err != nil {
		ptyErr = err
		return
	}
	if err := unix.Dup2(int(s.Fd()), 0); err != nil {
		ptyErr = err
		return
	}
	ptyMaster, ptySlave = m, s
	ptyOK = true
}

// SetTermWidth makes fd 0 a terminal of the given width. Returns false when no
// pseudo-terminal is available (the library then assumes 80 columns).
func SetTermWidth(cols int) bool {
	ptyOnce.Do(initPty)
	if !ptyOK {
		return false
	}
	if err := unix.IoctlSetWinsize(0, unix.TIOCSWINSZ, &unix.Winsize{Col: uint16(cols), Row: 24}); err != nil {
		return false
	}
	ws, err := unix.IoctlGetWinsize(0, unix.TIOCGWINSZ)
	return err == nil && int(ws.Col) == cols
}

// TermWidth reports what fd 0 answers to the window-size request right now
// (0 and the error when the request fails).
func TermWidth() (int, error) {
	ws, err := unix.IoctlGetWinsize(0, unix.TIOCGWINSZ)
	if err != nil {
		return 0, err
	}
	return int(ws.Col), nil
}
