package props

// Observation of the real parser.

import (
	"encoding/json"
	"errors"
	"fmt"
	"os"
	"path/filepath"
	"reflect"
	"sort"
	"strings"
	"sync"
	"time"

	flags "github.com/jessevdk/go-flags"
)

type RealResult struct {
	B        *Built
	Rest     []string
	Err      error
	Panic    string
	Handler  []HandlerCall
	CmdHand  []ExecEntry // CommandHandler invocations
	SetupErr error
	IniErr   error
}

var errHandlerSentinel = errors.New("sentinel: unknown-option handler error")

type RealCfg struct {
	Handler    *HandlerSpec
	CmdHandler bool     // install a CommandHandler that logs and calls Execute
	ExecErr    error    // error returned by Execute
	Ini        string   // INI text read (normal mode) before the command line is parsed
	Warmup     []string // an earlier, unrelated ParseArgs call on the same parser (nil: none)
	HasWarmup  bool
}

// withEnv sets the given variables for the duration of f.
func withEnv(env map[string]string, f func()) {
	type saved struct {
		v  string
		ok bool
	}
	old := map[string]saved{}
	keys := make([]string, 0, len(env))
	for k := range env {
		keys = append(keys, k)
	}
	sort.Strings(keys)
	for _, k := range keys {
		v, ok := os.LookupEnv(k)
		old[k] = saved{v, ok}
		os.Setenv(k, env[k])
	}
	defer func() {
		for _, k := range keys {
			if old[k].ok {
				os.Setenv(k, old[k].v)
			} else {
				os.Unsetenv(k)
			}
		}
	}()
	f()
}

// RunReal builds the declaration and parses args with the real library.
func RunReal(d *Decl, args []string, env map[string]string, cfg *RealCfg) *RealResult {
	if cfg == nil {
		cfg = &RealCfg{}
	}
	rr := &RealResult{}
	var b *Built
	if pm := Safely(func() { b = Build(d) }); pm != "" {
		rr.Panic = "during setup: " + pm
		return rr
	}
	rr.B = b
	if b.Err != nil {
		rr.SetupErr = b.Err
		return rr
	}
	b.ExecErr = cfg.ExecErr
	replDone := false
	if h := cfg.Handler; h != nil {
		b.P.UnknownOptionHandler = func(option string, arg flags.SplitArgument, rest []string) ([]string, error) {
			call := HandlerCall{Name: option, Args: append([]string(nil), rest...)}
			call.Arg, call.HasArg = arg.Value()
			rr.Handler = append(rr.Handler, call)
			switch h.Mode {
			case "drop1":
				if len(rest) > 0 {
					return rest[1:], nil
				}
			case "replace":
				if !replDone {
					replDone = true
					return append([]string(nil), h.Repl...), nil
				}
			case "error":
				return nil, errHandlerSentinel
			}
			return rest, nil
		}
	}
	if cfg.CmdHandler {
		b.P.CommandHandler = func(c flags.Commander, a []string) error {
			e := ExecEntry{Args: append([]string(nil), a...), ViaHand: true, NilCmd: c == nil}
			if ec, ok := c.(*ExecCmd); ok {
				e.Cmd = ec.id
			}
			rr.CmdHand = append(rr.CmdHand, e)
			if c != nil {
				return c.Execute(a)
			}
			return nil
		}
	}
	hangGuard(d, args)
	defer hangDone()
	withEnv(env, func() {
		rr.Panic = Safely(func() {
			if cfg.Ini != "" {
				if err := flags.NewIniParser(b.P).Parse(strings.NewReader(cfg.Ini)); err != nil {
					rr.IniErr = err
				}
			}
			if cfg.HasWarmup {
				Safely(func() { b.P.ParseArgs(append([]string(nil), cfg.Warmup...)) })
				b.ExecLog, b.CbLog, rr.Handler, rr.CmdHand = nil, nil, nil, nil
			}
			rr.Rest, rr.Err = b.P.ParseArgs(append([]string(nil), args...))
		})
	})
	return rr
}

// FlagsErr returns the *flags.Error or nil.
func FlagsErr(err error) *flags.Error {
	if fe, ok := err.(*flags.Error); ok {
		return fe
	}
	return nil
}

func strSliceEq(a, b []string) bool {
	if len(a) != len(b) {
		return false
	}
	for i := range a {
		if a[i] != b[i] {
			return false
		}
	}
	return true
}

// CheckValues compares every option field (and the callback log, and plain
// fields) with R's prediction. Returns "" when they agree.
func CheckValues(rr *RealResult, ref *RefResult) string {
	b := rr.B
	d := b.D
	if b.PairErr != "" {
		return "the parser registered other options than the declaration contains: " + b.PairErr
	}
	for _, o := range d.AllOpts() {
		if o.Kind.IsFunc() {
			continue
		}
		want, ok := ref.Vals[o.ID]
		if !ok {
			continue
		}
		if !b.OptVal[o.ID].IsValid() {
			return fmt.Sprintf("option %s (%s) of the declaration has no field in the parser built from it", o.ID, o.Display())
		}
		got := b.OptVal[o.ID].Interface()
		if !ValEqual(got, want) {
			note := ""
			if why := b.Detached[o.ID]; why != "" {
				note = " [the caller's struct does not contain this field: " + why + ", although the option is registered]"
			}
			return fmt.Sprintf("option %s (%s, %s, source %s, %d occurrences): field holds %s, expected %s%s", o.ID, o.Display(), o.Kind, ref.Sources[o.ID], ref.Occ[o.ID], ShowVal(got), ShowVal(want), note)
		}
	}
	if len(b.CbLog) != len(ref.CbLog) {
		return fmt.Sprintf("callback log %v, expected %v", b.CbLog, ref.CbLog)
	}
	for i := range b.CbLog {
		if b.CbLog[i].Opt != ref.CbLog[i].Opt || !reflect.DeepEqual(b.CbLog[i].Arg, ref.CbLog[i].Arg) {
			return fmt.Sprintf("callback log %v, expected %v", b.CbLog, ref.CbLog)
		}
	}
	return CheckPlain(b)
}

// CheckPlain: untagged fields keep their initial contents.
func CheckPlain(b *Built) string {
	for k, f := range b.PlainVal {
		if !reflect.DeepEqual(f.Interface(), b.PlainIni[k]) && !ValEqual(f.Interface(), b.PlainIni[k]) {
			return fmt.Sprintf("plain field %s was modified: %#v, initially %#v", k, f.Interface(), b.PlainIni[k])
		}
	}
	return ""
}

func CheckPositionals(rr *RealResult, ref *RefResult) string {
	for k, f := range rr.B.PosVal {
		want, ok := ref.PosVals[k]
		if !ok {
			continue
		}
		if !ValEqual(f.Interface(), want) {
			note := ""
			if why := rr.B.Detached[k]; why != "" {
				note = " [the caller's struct does not contain this field: " + why + ", although the positional is registered]"
			}
			return fmt.Sprintf("positional %s holds %s, expected %s%s", k, ShowVal(f.Interface()), ShowVal(want), note)
		}
	}
	return ""
}

func chainNames(c []*Cmd) []string {
	var r []string
	for _, x := range c {
		r = append(r, x.Name)
	}
	return r
}

// CheckErrType: real error must be of a type R allows.
func CheckErrType(err error, want *RefErr) string {
	fe := FlagsErr(err)
	if fe == nil {
		if want.Foreign {
			return ""
		}
		return fmt.Sprintf("expected *flags.Error of type %v (%s), got %T: %v", want.Types, want.Why, err, err)
	}
	if len(want.Types) == 0 && want.Foreign {
		return ""
	}
	for _, t := range want.Types {
		if fe.Type == t {
			return ""
		}
	}
	return fmt.Sprintf("expected error type %v (%s), got %v: %s", want.Types, want.Why, fe.Type, firstLine(fe.Message))
}

func firstLine(s string) string {
	if i := strings.Index(s, "\n"); i >= 0 {
		return s[:i] + "…"
	}
	return s
}

func sortedKeys(m map[string]reflect.Value) []string {
	r := make([]string, 0, len(m))
	for k := range m {
		r = append(r, k)
	}
	sort.Strings(r)
	return r
}

// envSafe: environment values cannot contain NUL.
func envSafe(s string) string { return strings.ReplaceAll(s, "\x00", "0") }

// ---- generic hang guard around calls into the library ----
// A parse that does not return is a C04 violation ("never hangs"). Whatever
// property is being checked, the process must not spin until the driver's
// timeout: the case is saved in C04's format and the process exits with code 4
// (the driver reports the run as inconclusive unless it is C04's own run, which
// has its own recording watchdog).

var (
	hgMu    sync.Mutex
	hgCase  *ParseCase
	hgSince time.Time
	hgOnce  sync.Once
)

func hangGuard(d *Decl, args []string) {
	hgOnce.Do(func() {
		go func() {
			for {
				time.Sleep(time.Second)
				hgMu.Lock()
				c, since := hgCase, hgSince
				hgMu.Unlock()
				if c != nil && time.Since(since) > 30*time.Second {
					dir := os.Getenv("VERIF_FAILDIR")
					if dir != "" && c.D != nil {
						os.MkdirAll(dir, 0o755)
						cb, _ := json.Marshal(c)
						b, _ := json.MarshalIndent(FailFile{Property: "C04", Message: "HANG: ParseArgs did not return within 30s", Case: cb}, "", " ")
						os.WriteFile(filepath.Join(dir, "HANG-C04.json"), b, 0o644)
					}
					fmt.Printf("HANG-IN-LIBRARY-CALL args=%q\n", truncArgs(c.Args))
					os.Exit(4)
				}
			}
		}()
	})
	hgMu.Lock()
	hgCase, hgSince = &ParseCase{D: d, Args: args}, time.Now()
	hgMu.Unlock()
}

func hangDone() {
	hgMu.Lock()
	hgCase = nil
	hgMu.Unlock()
}

// guardCall protects any other call into the library (INI, help, completion):
// if it does not return within 30 s the process exits with code 4.
func guardCall(what string) func() {
	hangGuard(nil, []string{what})
	return hangDone
}
