package props

import (
	"fmt"
	"os"
	"strings"
	"testing"

	"pgregory.net/rapid"
)

func TestMain(m *testing.M) {
	if os.Getenv("VERIF_FUZZING") == "" {
		// (the fuzzing engine re-executes os.Args[0] for its workers)
		os.Args[0] = SelfWord
	}
	prop := os.Getenv("VERIF_PROP")
	if kf := os.Getenv("VERIF_KNOWN"); kf != "" && prop != "" {
		for _, l := range LoadKnown(kf, prop) {
			fmt.Println(l)
		}
	}
	code := m.Run()
	if p := os.Getenv("VERIF_STATS"); p != "" {
		if os.Getenv("VERIF_FUZZING") != "" {
			// the fuzz coordinator and each worker are separate processes
			p = fmt.Sprintf("%s.%d.json", p, os.Getpid())
		}
		if err := DumpStats(p); err != nil {
			fmt.Fprintf(os.Stderr, "stats: %v\n", err)
			if code == 0 {
				code = 3
			}
		}
	}
	os.Exit(code)
}

// runProp drives one property: gen draws a case (pure data), oracle decides it.
func runProp[C any](t *testing.T, id string, gen func(*rapid.T) *C, oracle func(*C) string) {
	rapid.Check(t, func(rt *rapid.T) {
		c := gen(rt)
		if MemBudgetExhausted() {
			// generated but not evaluated: counted, and reported by the driver
			S(id).MemSkip()
			return
		}
		S(id).Eval()
		if msg := oracle(c); msg != "" {
			RecordFail(id, c, msg)
			rt.Fatalf("%s", msg)
		}
	})
}

// TestReplay re-evaluates recorded cases (VERIF_REPLAY: files separated by ':')
// directly through the oracle, bypassing rapid.
func TestReplay(t *testing.T) {
	list := os.Getenv("VERIF_REPLAY")
	if list == "" {
		t.Skip("no VERIF_REPLAY")
	}
	for _, path := range strings.Split(list, ":") {
		if path == "" {
			continue
		}
		prop, msg, err := Replay(path)
		if err != nil {
			t.Errorf("REPLAY-ERROR %s: %v", path, err)
			continue
		}
		S(prop).Eval()
		S(prop).Label("replayed")
		if msg != "" {
			fmt.Printf("REPLAY-FAIL property=%s file=%s\n", prop, path)
			t.Errorf("replay %s (%s) still fails: %s", path, prop, msg)
		}
	}
}
