package props

import (
	"fmt"
	"math/big"
	"strings"
	"testing"

	flags "github.com/jessevdk/go-flags"
	"pgregory.net/rapid"
)

// C11: values are converted exactly or rejected.

type C11Case struct {
	Kind    Kind     `json:"kind"`
	Base    int      `json:"base,omitempty"`
	Choices []string `json:"choices,omitempty"`
	Value   string   `json:"value"`
	Via     string   `json:"via"` // "arg" (--opt=value), "default" (default tag), "env"
	// LateChoices: the choices are assigned to Option.Choices (a public field)
	// after the parser was built instead of being declared by tags
	LateChoices bool `json:"late_choices,omitempty"`
	// More: earlier values of a multi-valued option (repeated occurrences, several
	// default tags, or an env list split on ","); Value is the last one
	More []string `json:"more,omitempty"`
	// OptVal: the option is declared optional:"yes" with this optional-value;
	// the values are still given attached (--opt=value), so they, not the
	// optional value, are what the command line denotes
	OptVal *string `json:"optval,omitempty"`
	// Opts: parser option bits (they must not change what a value denotes)
	Opts uint `json:"opts,omitempty"`
}

var _ = Register("C11", func() interface{} { return new(C11Case) }, func(c interface{}) string { return c11Oracle(c.(*C11Case)) })

var c11Kinds = []Kind{KString, KStringPtr, KStringSlice, KInt, KInt8, KInt16, KInt32, KInt64, KUint, KUint8, KUint16, KUint32, KUint64,
	KIntSlice, KIntPtr, KUint8Slice, KFloat32, KFloat64, KFloatSlice, KDuration, KDurSlice, KDurPtr, KMapFS, KMapSS, KMapSI, KMapIS, KUpper, KUpperSlice, KFuncI, KFuncS, KTri, KLvl}

var c11FloatPool = []string{"0", "-0", "1", "1.5", "-2.25", "1e3", "1E3", ".5", "5.", "+1", "1e", "e1", ".", "", " 1", "1 ", "1,5", "1_0", "1_0.5",
	"3.4028234e38", "3.4028235e38", "3.4028236e38", "3.5e38", "-3.5e38", "1e39", "1e38", "1.401298464324817e-45", "1e-46", "7e-46",
	"1.7976931348623157e308", "1.7976931348623159e308", "1.8e308", "-1.8e308", "5e-324", "2e-324", "1e-400", "4.9406564584124654e-324",
	"inf", "Inf", "+Inf", "-inf", "infinity", "-Infinity", "nan", "NaN", "-nan", "0x1p-2", "0x1.8p1", "0x1p1024", "0x.8p0", "0x1", "1p3",
	"16777217", "9007199254740993", "0.1", "0.30000000000000004", "1e+3", "1e-3", "--1", "1.5.2", "1e1e1", "١٢٣"}

var c11DurPool = []string{"0", "1s", "-5m", "-.5s", "-.25h", "-1.5h", "1h30m", "100ms", "1.5h", ".5s", "1h2m3s4ms5us6ns", "1µs", "1μs", "+3s", "5", "", "abc", "1x", "1d", "1 s", "1s ",
	"2562047h47m16.854775807s", "2562047h47m16.854775808s", "9223372036854775807ns", "9223372036854775808ns", "-9223372036854775808ns", "-9223372036854775809ns",
	"2562048h", "106751d", "1e3s", "1h-1m", "--1s", "1.s", ".s", "0.000000001s", "0.0000000001s"}

func c11IntTexts(t *rapid.T, k Kind, base int) string {
	if base == 0 {
		base = 10
	}
	min, max := IntLimits(k)
	lim := min
	if rapid.Bool().Draw(t, "useMax") {
		lim = max
	}
	off := rapid.SampledFrom([]int64{-2, -1, 0, 1, 2}).Draw(t, "off")
	n := new(big.Int).Add(lim, big.NewInt(off))
	txt := n.Text(base)
	switch rapid.IntRange(0, 13).Draw(t, "intForm") {
	case 0:
		return txt
	case 1:
		return strings.ToUpper(txt)
	case 2:
		if n.Sign() >= 0 {
			return "+" + txt
		}
		return txt
	case 3:
		if n.Sign() >= 0 {
			return "00" + txt
		}
		return "-00" + txt[1:]
	case 4:
		return " " + txt
	case 5:
		return txt + " "
	case 6:
		if len(txt) > 2 {
			return txt[:len(txt)-1] + "_" + txt[len(txt)-1:]
		}
		return "1_0"
	case 7:
		return rapid.SampledFrom([]string{"0x", "0X", "0b", "0o", "0"}).Draw(t, "prefix") + strings.TrimPrefix(txt, "-")
	case 8:
		// a digit equal to the base
		d := "0123456789abcdefghijklmnopqrstuvwxyz"
		if base < 36 {
			return "1" + string(d[base])
		}
		return "1!"
	case 9:
		return rapid.SampledFrom([]string{"", "-", "+", "--1", "+-1", "-+1", "1-", "1.0", "1e3", "0.0", "١٢٣", "1\x00", "²"}).Draw(t, "junk")
	case 10:
		return "-0"
	case 11:
		// small random value in base
		v := rapid.Int64Range(-40, 40).Draw(t, "small")
		return big.NewInt(v).Text(base)
	case 12:
		// far beyond the range
		return new(big.Int).Mul(max, big.NewInt(1000)).Text(base)
	default:
		return rapid.StringN(0, 6, 12).Draw(t, "rnd")
	}
}

func c11ScalarText(t *rapid.T, k Kind, base int) string {
	switch k {
	case KString, KComp:
		if rapid.Bool().Draw(t, "pool") {
			return rapid.SampledFrom(stringPool).Draw(t, "s")
		}
		return rapid.StringN(0, 10, 40).Draw(t, "rs")
	case KUpper:
		return rapid.SampledFrom([]string{"x", "", "abc", "!bad", "pre!badpost", "é", "!ba", "bad!"}).Draw(t, "upper")
	case KTri:
		return rapid.SampledFrom([]string{"on", "off", "On", "true", "false", "", " on", "1", "onoff"}).Draw(t, "tri")
	case KBool:
		return rapid.SampledFrom([]string{"true", "false", "1", "0", "t", "f", "T", "F", "TRUE", "FALSE", "True", "False", "yes", "no", "on", "tRUE", " true", "2", "", "y"}).Draw(t, "bool")
	case KFloat32, KFloat64:
		if rapid.IntRange(0, 9).Draw(t, "rndFloat") == 0 {
			return rapid.StringN(0, 6, 12).Draw(t, "rnd")
		}
		if rapid.IntRange(0, 5).Draw(t, "midpoint") == 0 {
			return FloatMidpointText(t)
		}
		return rapid.SampledFrom(c11FloatPool).Draw(t, "float")
	case KDuration:
		return rapid.SampledFrom(c11DurPool).Draw(t, "dur")
	}
	return c11IntTexts(t, k, base)
}

func genC11(t *rapid.T) *C11Case {
	c := &C11Case{Kind: rapid.SampledFrom(c11Kinds).Draw(t, "kind")}
	k := c.Kind
	usesInt := false
	if k.IsMap() {
		a, b := k.MapKV()
		_, i1 := intBits[a]
		_, i2 := intBits[b]
		usesInt = i1 || i2
	} else {
		_, usesInt = intBits[k.Elem()]
	}
	if usesInt && rapid.IntRange(0, 9).Draw(t, "hasBase") < 6 {
		c.Base = rapid.IntRange(2, 36).Draw(t, "base")
	}
	if k.IsMap() {
		kk, vk := k.MapKV()
		switch rapid.IntRange(0, 7).Draw(t, "mapForm") {
		case 0:
			c.Value = c11ScalarText(t, kk, c.Base)
		case 1:
			c.Value = ":" + c11ScalarText(t, vk, c.Base)
		case 2:
			c.Value = c11ScalarText(t, kk, c.Base) + ":"
		case 3:
			c.Value = c11ScalarText(t, kk, c.Base) + ":" + c11ScalarText(t, vk, c.Base) + ":" + "x"
		case 4:
			c.Value = ""
		default:
			c.Value = c11ScalarText(t, kk, c.Base) + ":" + c11ScalarText(t, vk, c.Base)
		}
	} else {
		c.Value = c11ScalarText(t, k.Elem(), c.Base)
	}
	if rapid.IntRange(0, 9).Draw(t, "hasChoices") < 2 {
		n := rapid.IntRange(1, 3).Draw(t, "nchoices")
		for i := 0; i < n; i++ {
			c.Choices = append(c.Choices, genValidText(t, k, c.Base))
		}
		switch rapid.IntRange(0, 5).Draw(t, "choiceVal") {
		case 0:
			c.Value = c.Choices[0]
		case 1:
			c.Value = c.Choices[len(c.Choices)-1]
		case 2:
			c.Value = flipCase(c.Choices[0])
		case 3:
			if len(c.Choices[0]) > 0 {
				c.Value = c.Choices[0][:len(c.Choices[0])-1]
			}
		case 4:
			c.Value = " " + c.Choices[0]
		case 5:
			c.Value = c.Choices[0] + "x"
		}
	}
	if k.IsMulti() && rapid.IntRange(0, 9).Draw(t, "list") < 4 {
		n := rapid.IntRange(1, 20).Draw(t, "listLen")
		badAt := -1
		if rapid.IntRange(0, 4).Draw(t, "listBad") == 0 {
			badAt = rapid.IntRange(0, n-1).Draw(t, "listBadAt")
		}
		for i := 0; i < n; i++ {
			tx := ""
			switch {
			case i == badAt:
				tx = genInvalidText(t, k, c.Base)
			case len(c.Choices) > 0:
				tx = rapid.SampledFrom(c.Choices).Draw(t, "listChoice")
			default:
				tx = genValidText(t, k, c.Base)
			}
			c.More = append(c.More, tx)
		}
	}
	c.LateChoices = len(c.Choices) > 0 && rapid.IntRange(0, 3).Draw(t, "lateChoices") == 0
	c.Via = []string{"arg", "default", "env", "sep"}[weighted(t, "via", []int{6, 2, 2, 2})]
	if k.IsFunc() || (k == KTri && c.Via == "default") {
		c.Via = "arg"
	}
	c.Opts = uint(rapid.SampledFrom([]flags.Options{flags.None, flags.None, flags.IgnoreUnknown, flags.PassDoubleDash, flags.PassAfterNonOption, flags.IgnoreUnknown | flags.PassDoubleDash}).Draw(t, "parserOpts"))
	if c.Via == "arg" && rapid.IntRange(0, 4).Draw(t, "shortAttached") == 0 {
		// the value attached to the short name (-oVALUE); an empty value or one
		// starting with "=" would be a different token
		ok := true
		for _, tx := range append(append([]string{}, c.More...), c.Value) {
			if tx == "" || tx[0] == '=' {
				ok = false
			}
		}
		if ok {
			c.Via = "short"
		}
	}
	if c.Via == "sep" {
		// the value as a separate token (--opt VALUE): a token starting with a
		// dash is only taken as the value when it is a negative number of the
		// option's (signed numeric) type; other such texts stay with --opt=VALUE
		for _, tx := range append(append([]string{}, c.More...), c.Value) {
			if strings.HasPrefix(tx, "-") {
				if _, ver := RefOne(k, c.Base, tx); !(k.IsSignedNum() && ver == Accept && len(tx) > 1) {
					c.Via = "arg"
				}
			}
		}
	}
	if c.Via == "arg" && rapid.IntRange(0, 6).Draw(t, "optionalArg") == 0 {
		ov := genValidText(t, k, c.Base)
		if len(c.Choices) > 0 {
			ov = c.Choices[0]
		}
		c.OptVal = &ov
	}
	if c.Via == "env" {
		c.Value = envSafe(c.Value)
		for i := range c.More {
			c.More[i] = envSafe(c.More[i])
		}
		for _, tx := range append(append([]string{}, c.More...), c.Value) {
			if len(c.More) > 0 && strings.Contains(tx, ",") {
				c.Via = "arg" // the list separator may not occur inside a value
			}
		}
	}
	return c
}

func c11Decl(c *C11Case) *Decl {
	o := Opt{ID: "o1", Field: "Opt", Kind: c.Kind, Short: "o", Long: "opt", Base: c.Base, Choices: c.Choices, Unquote: "false"}
	switch c.Via {
	case "default":
		o.Defaults = append(append([]string{}, c.More...), c.Value)
	case "env":
		o.Env = "VPC11_OPT"
		if len(c.More) > 0 {
			o.EnvDelim = ","
		}
	}
	if c.OptVal != nil {
		o.Optional = "yes"
		o.OptVals = []string{*c.OptVal}
	}
	// bystanders declared before and after the option, in a nested group and in
	// a sub-command: a diagnostic must name the option at fault, not one of them
	d := &Decl{Opts: c.Opts, Root: Cmd{ID: "root", Name: "app", SubOpt: true}}
	d.Root.G.Groups = []Group{{Field: "G0", Desc: "Application Options",
		Options: []Opt{{ID: "b1", Field: "Before", Kind: KString, Short: "a", Long: "aaa", Defaults: []string{"x"}}, o, {ID: "b2", Field: "After", Kind: KInt, Short: "z", Long: "zzz", Defaults: []string{"1"}}},
		Groups:  []Group{{Field: "G1", Desc: "Nested", Options: []Opt{{ID: "b3", Field: "Nested", Kind: KFloat64, Long: "nnn"}}}}}}
	d.Root.Cmds = []Cmd{{ID: "c1", Name: "sub", Field: "Sub", ByTag: true, G: Group{Options: []Opt{{ID: "b4", Field: "InCmd", Kind: KString, Long: "ccc", Defaults: []string{"y"}}}}}}
	return d
}

func c11Oracle(c *C11Case) string {
	st := S("C11")
	d := c11Decl(c)
	var args []string
	var env map[string]string
	texts := append(append([]string{}, c.More...), c.Value)
	switch c.Via {
	case "arg":
		for _, tx := range texts {
			args = append(args, "--opt="+tx)
		}
	case "sep":
		for _, tx := range texts {
			args = append(args, "--opt", tx)
		}
	case "short":
		for _, tx := range texts {
			args = append(args, "-o"+tx)
		}
	case "env":
		env = map[string]string{"VPC11_OPT": strings.Join(texts, ",")}
	}
	var rr *RealResult
	if c.LateChoices && len(c.Choices) > 0 {
		d.Root.G.Groups[0].Options[1].Choices = nil
		rr = &RealResult{}
		rr.Panic = Safely(func() {
			b := Build(d)
			rr.B, rr.SetupErr = b, b.Err
			if b.Err != nil {
				return
			}
			b.P.FindOptionByLongName("opt").Choices = append([]string{}, c.Choices...)
			withEnv(env, func() { rr.Rest, rr.Err = b.P.ParseArgs(args) })
		})
		st.Label("choices assigned in code")
	} else {
		rr = RunReal(d, args, env, nil)
	}
	if rr.SetupErr != nil {
		return "unexpected setup error: " + rr.SetupErr.Error()
	}
	if rr.Panic != "" {
		return fmt.Sprintf("panic converting %q to %s: %s", c.Value, c.Kind, rr.Panic)
	}
	// reference verdict: the first text of the list that is not acceptable decides
	// (for a single value the list has one element)
	var elems []interface{}
	member := true
	var elem interface{}
	ver := Accept
	for _, tx := range texts {
		m := len(c.Choices) == 0
		for _, ch := range c.Choices {
			if ch == tx {
				m = true
			}
		}
		if !m {
			member = false
			break
		}
		e, v := RefOne(c.Kind, c.Base, tx)
		elem, ver = e, v
		if v != Accept {
			break
		}
		elems = append(elems, e)
	}
	if len(c.More) > 0 {
		st.Label(fmt.Sprintf("list of %d values", min(len(texts), 21)/7*7))
	}
	what := fmt.Sprintf("%s base=%d choices=%q value=%q via=%s", c.Kind, c.Base, c.Choices, c.Value, c.Via)
	if len(c.More) > 0 {
		what = fmt.Sprintf("%s base=%d choices=%q values=%q via=%s", c.Kind, c.Base, c.Choices, texts, c.Via)
	}
	st.Label("via " + c.Via)
	if c.OptVal != nil {
		st.Label("optional argument, value attached")
	}
	// non-trivial classification
	nt := len(c.Choices) > 0 || strings.ContainsAny(c.Value, "+-_ eExXpP.") || strings.HasPrefix(c.Value, "0") || c.Value == ""
	if _, isInt := intBits[c.Kind.Elem()]; isInt && !c.Kind.IsMap() {
		if n, _, ok := refBigInt(strings.TrimSpace(c.Value), baseOr10(c.Base)); ok {
			min, max := IntLimits(c.Kind.Elem())
			d1 := new(big.Int).Sub(n, min)
			d2 := new(big.Int).Sub(n, max)
			if d1.CmpAbs(big.NewInt(2)) <= 0 || d2.CmpAbs(big.NewInt(2)) <= 0 {
				nt = true
				st.Label("within 2 of a type limit")
			}
		}
	}
	if nt {
		st.NonTrivial(what, map[string]interface{}{"kind": c.Kind, "base": c.Base, "choices": c.Choices, "value": c.Value, "via": c.Via})
	}
	fe := FlagsErr(rr.Err)
	nameOK := func(msg string) bool { return strings.Contains(msg, "-o, --opt") }
	if !member {
		st.Label("verdict: not among choices")
		if rr.Err == nil {
			return fmt.Sprintf("%s: accepted although the value is not one of the choices", what)
		}
		if fe == nil || fe.Type != flags.ErrInvalidChoice {
			return fmt.Sprintf("%s: expected ErrInvalidChoice, got %T %v", what, rr.Err, rr.Err)
		}
		if !nameOK(fe.Message) {
			return fmt.Sprintf("%s: ErrInvalidChoice message %q does not identify the option", what, fe.Message)
		}
		for _, ch := range c.Choices {
			if !strings.Contains(fe.Message, ch) {
				return fmt.Sprintf("%s: ErrInvalidChoice message %q does not list allowed value %q", what, fe.Message, ch)
			}
		}
		return ""
	}
	st.Label("verdict: " + ver.String())
	switch ver {
	case Reject:
		if rr.Err == nil {
			got := ""
			if !c.Kind.IsFunc() {
				got = ShowVal(rr.B.OptVal["o1"].Interface())
			}
			return fmt.Sprintf("%s: accepted (stored %s) although the text denotes no value of the type", what, got)
		}
		if fe == nil || fe.Type != flags.ErrMarshal {
			return fmt.Sprintf("%s: expected ErrMarshal, got %T %v", what, rr.Err, rr.Err)
		}
		if !nameOK(fe.Message) {
			return fmt.Sprintf("%s: ErrMarshal message %q does not identify the option", what, fe.Message)
		}
		return ""
	case DontCare:
		if rr.Err != nil {
			return ""
		}
	case Accept:
		if rr.Err != nil {
			return fmt.Sprintf("%s: rejected (%v) although the text denotes a value of the type", what, rr.Err)
		}
	}
	// accepted: stored value is exactly the denoted one
	if c.Kind.IsFunc() {
		if len(rr.B.CbLog) != 1 || !ValEqual(rr.B.CbLog[0].Arg, elem) {
			return fmt.Sprintf("%s: callback log %v, expected one call with %s", what, rr.B.CbLog, ShowVal(elem))
		}
		return ""
	}
	want := Assemble(c.Kind, elems)
	got := rr.B.OptVal["o1"].Interface()
	if !ValEqual(got, want) {
		return fmt.Sprintf("%s: stored %s, denoted value is %s", what, ShowVal(got), ShowVal(want))
	}
	return ""
}

func baseOr10(b int) int {
	if b == 0 {
		return 10
	}
	return b
}

// c11Exhaustive enumerates all (integer type x base x limit +-{0,1}) cases.
func c11Exhaustive() (string, int) {
	n := 0
	for k := range intBits {
		for base := 2; base <= 36; base++ {
			min, max := IntLimits(k)
			for _, lim := range []*big.Int{min, max} {
				for _, off := range []int64{-1, 0, 1} {
					v := new(big.Int).Add(lim, big.NewInt(off))
					c := &C11Case{Kind: k, Base: base, Value: v.Text(base), Via: "arg"}
					S("C11").Eval()
					S("C11").Label("exhaustive limit enumeration")
					n++
					if m := c11Oracle(c); m != "" {
						RecordFail("C11", c, m)
						return m, n
					}
				}
			}
		}
	}
	return "", n
}

func TestC11(t *testing.T) {
	S("C11").Rule = "(option type among 28 incl. pointers, slices, maps, callbacks, custom unmarshaler) x base 2..36 x choice sets x boundary-biased value text (type limits +-{0,1,2} in the declared base with sign/leading-zero/blank/underscore/prefix/digit>=base forms; float32/64 extremes, subnormals, overflow, inf/nan spellings, hex floats; duration overflow; key:value shapes; choice near misses) delivered as --opt=value (unquote off, lossless), default tag or environment variable; plus every run an exhaustive enumeration of integer type x base x limit+-{0,1} (2100 cases). oracle: independent reference (own digit scanner + math/big range check; strconv.ParseFloat/time.ParseDuration of the declared width), three-valued. non-trivial: choices declared, or text with sign/zero-prefix/blank/exponent/underscore/special form or empty, or within 2 of a type limit; distinct by (type, base, choices, value, via)"
	if m, _ := c11Exhaustive(); m != "" {
		t.Fatalf("%s", m)
	}
	runProp(t, "C11", genC11, c11Oracle)
}

// FuzzConvert: coverage-guided search over (type selector, base, bytes).
func FuzzConvert(f *testing.F) {
	for i, s := range []string{"0", "-128", "128", "255", "256", "1e39", "3.4028236e38", "inf", "0x1p-2", "1h", "9223372036854775808ns", "k:v", "k:", ":", "+5", "-0", "1_0", " 1", "7f", "zz", "Z"} {
		f.Add(uint8(i), uint8(i*3), []byte(s))
	}
	f.Fuzz(func(t *testing.T, ks uint8, bs uint8, raw []byte) {
		c := &C11Case{Kind: c11Kinds[int(ks)%len(c11Kinds)], Value: string(raw), Via: "arg"}
		if bs%3 != 0 {
			c.Base = 2 + int(bs)%35
		}
		S("C11").Eval()
		if m := c11Oracle(c); m != "" {
			RecordFail("C11", c, m)
			t.Fatal(m)
		}
	})
}
