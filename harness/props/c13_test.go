package props

import (
	"fmt"
	"strconv"
	"strings"
	"testing"

	"pgregory.net/rapid"
)

// C13: an INI entry means the same as the corresponding command-line flag.

type C13Case struct {
	D          *Decl     `json:"decl"`
	Lines      []IniLine `json:"lines"`
	AsDefaults bool      `json:"as_defaults"`
	// Bad: an entry with an unconvertible value, inserted before Lines[BadAt]
	// (at least one entry follows it): like flags after a rejected flag, the
	// entries after a rejected entry are not applied
	Bad   *IniLine `json:"bad,omitempty"`
	BadAt int      `json:"bad_at,omitempty"`
}

var _ = Register("C13", func() interface{} { return new(C13Case) }, func(c interface{}) string { return c13Oracle(c.(*C13Case)) })

// crossNames makes names cross: an option's ini-name / long name equals another
// option's field, long or short name (within one command).
func crossNames(t *rapid.T, d *Decl) {
	d.EachCmd(func(c *Cmd, chain []*Cmd) {
		var opts []*Opt
		c.G.EachGroup(func(g *Group, _ []*Group) {
			for i := range g.Options {
				opts = append(opts, &g.Options[i])
			}
		})
		if len(opts) < 2 {
			return
		}
		longs := map[string]bool{}
		for _, o := range d.CmdOpts(c, chain) {
			longs[o.NsLong] = true
		}
		// namespaces assigned to the commands of the chain prefix every long name
		pref := ""
		for _, cc := range chain {
			if cc.G.Namespace != "" {
				pref += cc.G.Namespace + d.NsD()
			}
		}
		n := rapid.IntRange(0, 2).Draw(t, "ncross")
		for i := 0; i < n; i++ {
			a := opts[rapid.IntRange(0, len(opts)-1).Draw(t, "crossA")]
			b := opts[rapid.IntRange(0, len(opts)-1).Draw(t, "crossB")]
			if a == b || a.ViaAdd || b.ViaAdd {
				continue // (ini-name is a tag; options added in code have neither tag nor field name)
			}
			switch rapid.IntRange(0, 6).Draw(t, "crossKind") {
			case 5:
				if b.Long != "" && strings.ToUpper(b.Long) != b.Long {
					a.IniName = strings.ToUpper(b.Long)
				}
			case 6:
				a.IniName = flipCase(b.Field)
			case 0:
				a.IniName = b.Field
			case 1:
				if b.Long != "" {
					a.IniName = b.Long
				}
			case 2:
				if b.Short != "" {
					a.IniName = b.Short
				}
			case 3:
				a.IniName = strings.ToLower(b.Field)
			case 4:
				// long name equal to another option's field name (top-level groups only,
				// so that the namespaced name is the bare name)
				if !longs[pref+b.Field] {
					isTop := false
					for gi := range c.G.Groups {
						for oi := range c.G.Groups[gi].Options {
							if &c.G.Groups[gi].Options[oi] == a {
								isTop = true
							}
						}
					}
					for oi := range c.G.Options {
						if &c.G.Options[oi] == a {
							isTop = true
						}
					}
					if isTop && a.Long != "" {
						delete(longs, pref+a.Long)
						a.Long = b.Field
						longs[pref+b.Field] = true
					}
				}
			}
		}
	})
}

func genC13(t *rapid.T) *C13Case {
	d := genDecl(t, iniDecl)
	// some explicit ini-names
	d.EachCmd(func(c *Cmd, _ []*Cmd) {
		c.G.EachGroup(func(g *Group, _ []*Group) {
			for i := range g.Options {
				if rapid.IntRange(0, 5).Draw(t, "hasIniName") == 0 && !g.Options[i].ViaAdd {
					g.Options[i].IniName = rapid.SampledFrom([]string{"ini-key", "Key", "the.key", "k", "Verbose", "é"}).Draw(t, "iniName") + fmt.Sprint(i)
				}
			}
		})
	})
	crossNames(t, d)
	c := &C13Case{D: d}
	c.Lines = genIniLines(t, d, 8, true)
	c.AsDefaults = rapid.Bool().Draw(t, "asDefaults")
	// a value far longer than any read buffer (the command line takes it too)
	if rapid.IntRange(0, 59).Draw(t, "hugeValue") == 0 {
		for i := range c.Lines {
			scope, _ := iniScope(d, c.Lines[i].Section)
			if o := iniResolve(scope, c.Lines[i].Key); o != nil && (o.Kind == KString || o.Kind == KStringSlice) && len(o.Choices) == 0 {
				c.Lines[i].Value = strings.Repeat("long value ", rapid.SampledFrom([]int{6000, 7000, 100000}).Draw(t, "hugeLen"))
				break
			}
		}
	}
	if len(c.Lines) >= 1 && rapid.IntRange(0, 5).Draw(t, "rejectedEntry") == 0 {
		var cands []IniLine
		for _, o := range d.AllOpts() {
			if _, isInt := intBits[o.Kind.Elem()]; (isInt || o.Kind == KFloat64 || o.Kind == KDuration) && !o.NoIni && !o.Kind.IsMap() {
				sec := iniSectionsFor(d, o)[0]
				scope, ok := iniScope(d, sec)
				if r := iniResolve(scope, iniKeyOf(o)); ok && r != nil && r.ID == o.ID {
					cands = append(cands, IniLine{Section: sec, Key: iniKeyOf(o), Value: "x!notanumber"})
				}
			}
		}
		if len(cands) > 0 {
			b := cands[rapid.IntRange(0, len(cands)-1).Draw(t, "badEntry")]
			c.Bad, c.BadAt = &b, rapid.IntRange(0, len(c.Lines)-1).Draw(t, "badAt")
		}
	}
	return c
}

// c13Rejected: a file with one rejected entry; options addressed only by the
// entries after it must be left as a read of the entries before it leaves them.
func c13Rejected(c *C13Case) string {
	st := S("C13")
	prefix := append([]IniLine{}, c.Lines[:c.BadAt]...)
	full := append(append(append([]IniLine{}, prefix...), *c.Bad), c.Lines[c.BadAt:]...)
	if r := RefIni(c.D, append(append([]IniLine{}, prefix...), *c.Bad)); r.ErrKind != "bad-value" {
		st.Label("skip: R does not single out the rejected entry")
		return ""
	}
	ptext, _ := RenderIni(prefix)
	ftext, _ := RenderIni(full)
	p := RunIniRead(c.D, ptext, c.AsDefaults)
	f := RunIniRead(c.D, ftext, c.AsDefaults)
	if p.Panic != "" || f.Panic != "" || p.B == nil || f.B == nil || p.B.Err != nil || p.Err != nil {
		st.Label("skip: panic, setup error or prefix rejected")
		return ""
	}
	if f.Err == nil {
		st.Label("skip: the unconvertible value was accepted (C11/C14)")
		return ""
	}
	st.Label("rejected entry followed by further entries")
	st.Eval() // the variant with the rejected entry is a second evaluation of this case
	inPrefix := map[string]bool{}
	for _, l := range append(prefix, *c.Bad) {
		scope, _ := iniScope(c.D, l.Section)
		if o := iniResolve(scope, l.Key); o != nil {
			inPrefix[o.ID] = true
		}
	}
	later := false
	for _, l := range c.Lines[c.BadAt:] {
		scope, _ := iniScope(c.D, l.Section)
		o := iniResolve(scope, l.Key)
		if o == nil || inPrefix[o.ID] {
			continue
		}
		later = true
		if o.Kind.IsFunc() {
			for _, e := range f.B.CbLog {
				if e.Opt == o.ID {
					return fmt.Sprintf("the entry at line %d was rejected (%v), yet the callback of option %s, addressed only by a later entry, ran\n%s", c.BadAt+1, f.Err, o.ID, ftext)
				}
			}
			continue
		}
		if ga, gb := f.B.OptVal[o.ID].Interface(), p.B.OptVal[o.ID].Interface(); !ValEqual(ga, gb) {
			return fmt.Sprintf("an entry was rejected (%v), yet option %s (%s), addressed only by a later entry, was changed: holds %s, was %s (a rejected flag stops the command line in the same way)\n%s", f.Err, o.ID, o.Display(), ShowVal(ga), ShowVal(gb), ftext)
		}
	}
	if later {
		st.NonTrivial("rejected|"+ftext+declSig(c.D), map[string]interface{}{"file": ftext})
	}
	return ""
}

func c13Oracle(c *C13Case) string {
	st := S("C13")
	if c.D.DupNamesInCommand() {
		st.Exclude("two options of one command share a name (outside the generators' preconditions)")
		return ""
	}
	if c.Bad != nil && c.BadAt >= 0 && c.BadAt < len(c.Lines) {
		if m := c13Rejected(c); m != "" {
			return m
		}
	}
	ref := RefIni(c.D, c.Lines)
	if ref.ErrKind != "" {
		st.Label("skip: R does not accept the file: " + ref.ErrKind)
		return ""
	}
	text, _ := RenderIni(c.Lines)
	a := RunIniRead(c.D, text, c.AsDefaults)
	if a.Panic != "" {
		return fmt.Sprintf("INI reader panicked on\n%s\n%s", text, a.Panic)
	}
	if a.B == nil || a.B.Err != nil {
		st.Label("skip: setup error")
		return ""
	}
	if a.Err != nil {
		return fmt.Sprintf("entry rejected (%v) although it names an option and carries a valid value:\n%s", a.Err, text)
	}
	mode := "normal"
	if c.AsDefaults {
		mode = "as-defaults"
	}
	st.Label("mode " + mode)
	// (1) against R: every option holds the value its entries denote; others untouched
	for _, o := range c.D.AllOpts() {
		if o.Kind.IsFunc() {
			continue
		}
		got := a.B.OptVal[o.ID].Interface()
		var want interface{}
		if el, ok := ref.Touched[o.ID]; ok {
			want = IniFinal(o, el)
		} else {
			w, err := RefValue(o.Kind, o.Base, o.Initial)
			if err != nil {
				continue
			}
			want = w
		}
		if !ValEqual(got, want) {
			return fmt.Sprintf("%s mode: option %s (%s, field %s, ini-name %q, %s) holds %s, expected %s after\n%s", mode, o.ID, o.Display(), o.Field, o.IniName, o.Kind, ShowVal(got), ShowVal(want), text)
		}
	}
	// callbacks
	var wantCb []CbEntry
	for _, l := range c.Lines {
		scope, _ := iniScope(c.D, l.Section)
		o := iniResolve(scope, l.Key)
		if o != nil && o.Kind.IsFunc() {
			tx, _ := IniValueText(l.Value)
			var arg interface{}
			if o.Kind != KFunc0 {
				arg, _ = RefOne(o.Kind, o.Base, tx)
			}
			wantCb = append(wantCb, CbEntry{Opt: o.ID, Arg: arg})
		}
	}
	if fmt.Sprint(a.B.CbLog) != fmt.Sprint(wantCb) {
		return fmt.Sprintf("callback log %v, expected %v after\n%s", a.B.CbLog, wantCb, text)
	}
	// (2) differential: the same entries as flags
	for id, o := range ref.Opts {
		var argv []string
		for _, cm := range o.Chain[1:] {
			argv = append(argv, cm.Name)
		}
		expressible := true
		for _, l := range c.Lines {
			scope, _ := iniScope(c.D, l.Section)
			if t := iniResolve(scope, l.Key); t == nil || t.ID != id {
				continue
			}
			tx, _ := IniValueText(l.Value)
			name := "--" + o.NsLong
			if o.Long == "" {
				name = "-" + o.Short
			}
			switch {
			case o.Kind.IsFlag():
				if v, ver := RefScalar(KBool, 0, tx); tx == "" || (ver == Accept && v.(bool)) {
					argv = append(argv, name)
				} else {
					expressible = false // "flag = false" has no command-line spelling
				}
			default:
				if o.Kind.IsMap() {
					if j := strings.Index(tx, ":"); j >= 0 && len(tx) > j+1 && tx[j+1] == '"' {
						if u, err := strconv.Unquote(tx[j+1:]); err == nil {
							tx = tx[:j+1] + u
						}
					}
				}
				if len(tx) > 0 && tx[0] == '"' && o.Unquote != "false" {
					tx = strconv.Quote(tx)
				}
				argv = append(argv, name+"="+tx)
			}
		}
		if !expressible {
			st.Label("entry without command-line spelling (compared with R only)")
			continue
		}
		b := RunReal(c.D, argv, nil, nil)
		if b.Panic != "" || b.SetupErr != nil {
			continue
		}
		if b.Err != nil {
			st.Label("skip differential: flag run failed")
			continue
		}
		st.Label("differential run")
		if o.Kind.IsFunc() {
			continue
		}
		ga, gb := a.B.OptVal[id].Interface(), b.B.OptVal[id].Interface()
		if !ValEqual(ga, gb) {
			return fmt.Sprintf("%s mode: option %s (%s): INI gives %s, flags %q give %s\n%s", mode, id, o.Display(), ShowVal(ga), argv, ShowVal(gb), text)
		}
	}
	// classification
	nt := false
	counts := map[string]int{}
	for _, l := range c.Lines {
		scope, _ := iniScope(c.D, l.Section)
		o := iniResolve(scope, l.Key)
		if o == nil {
			continue
		}
		counts[o.ID]++
		canon := iniKeyOf(o)
		if o.IniName != "" {
			canon = o.IniName
		}
		if l.Key != canon {
			st.Label("non-canonical key form")
			nt = true
		}
		// crossing: the key also matches another option under some form
		for _, p := range scope {
			if p.ID != o.ID && (strings.EqualFold(p.IniName, l.Key) && p.IniName != "" || p.Field == l.Key || p.NsLong == l.Key && p.NsLong != "" || p.Short == l.Key && p.Short != "") {
				st.Label("crossing names")
				nt = true
			}
		}
		if strings.Contains(l.Section, ".") {
			st.Label("nested command group / command path section")
			nt = true
		}
		if counts[o.ID] >= 2 && (o.Kind.IsMulti() || o.Kind == KBoolSlice) {
			st.Label("multi-valued key repeated")
			nt = true
		}
	}
	if nt {
		st.NonTrivial(mode+"|"+text+"|"+declSig(c.D), map[string]interface{}{"mode": mode, "ini": text})
	}
	return ""
}

func TestC13(t *testing.T) {
	S("C13").Rule = "declarations with crossing names (ini-name equal to another option's field/long/short name, long name equal to a field name), nested namespaced groups, commands depth <= 2 x INI text of 1-8 entries: section spelled by group description (random case), dotted command path or none; key spelled by ini-name (random case), field name, namespaced long name or short name; values for every type, repeated keys x normal / as-defaults mode; oracle: (1) R name resolution + value per entry, untouched options keep their contents, callback log; (2) differential: the same entries passed as --name=value flags to a fresh parser give the same field value. non-trivial: non-canonical key form, crossing names, repeated multi-valued key, or command-path section; distinct by (mode, text, declaration signature)"
	runProp(t, "C13", genC13, c13Oracle)
}
