package props

import (
	"fmt"
	"reflect"
	"strconv"
	"strings"
	"testing"
	"unicode/utf8"

	flags "github.com/jessevdk/go-flags"
	"pgregory.net/rapid"
)

// C19: declarations are read faithfully or rejected at setup.

type C19Case struct {
	D         *Decl  `json:"decl"`
	SpellSeed uint64 `json:"spell_seed"`
	ViaNew    bool   `json:"via_new_parser"`
	Note      string `json:"note,omitempty"`
}

var _ = Register("C19", func() interface{} { return new(C19Case) }, func(c interface{}) string { return c19Oracle(c.(*C19Case)) })

// ---- reference scanner for the conventional struct tag syntax ----

type tagVerdict int

const (
	tagWell tagVerdict = iota
	tagMalformed
	tagUnsettled
)

func refScanTag(tag string) ([][2]string, tagVerdict) {
	var pairs [][2]string
	v := tag
	for {
		i := 0
		for i < len(v) && v[i] == ' ' {
			i++
		}
		v = v[i:]
		if v == "" {
			return pairs, tagWell
		}
		i = 0
		for i < len(v) && v[i] != ' ' && v[i] != ':' && v[i] != '"' {
			if v[i] < 0x20 || v[i] == 0x7f {
				return nil, tagUnsettled // control characters in a key: conventions differ
			}
			i++
		}
		if i == 0 {
			if v[0] == ':' {
				return nil, tagUnsettled // empty key
			}
			return nil, tagMalformed
		}
		if i >= len(v) || v[i] != ':' {
			return nil, tagMalformed
		}
		key := v[:i]
		v = v[i+1:]
		if v == "" || v[0] != '"' {
			return nil, tagMalformed
		}
		j := 1
		for j < len(v) && v[j] != '"' {
			if v[j] == '\n' {
				return nil, tagMalformed
			}
			if v[j] == '\\' {
				j++
			}
			j++
		}
		if j >= len(v) {
			return nil, tagMalformed
		}
		val, err := strconv.Unquote(v[:j+1])
		if err != nil {
			return nil, tagMalformed
		}
		pairs = append(pairs, [2]string{key, val})
		v = v[j+1:]
	}
}

func pairsGet(p [][2]string, k string) string {
	r := ""
	for _, kv := range p {
		if kv[0] == k {
			r = kv[1]
		}
	}
	return r
}

func pairsMany(p [][2]string, k string) []string {
	var r []string
	for _, kv := range p {
		if kv[0] == k {
			r = append(r, kv[1])
		}
	}
	return r
}

// ---- spelling with varied escapes (a pure function of value, seed and call counter) ----

type speller struct {
	seed uint64
	n    uint64
}

func (s *speller) next(k int) int {
	s.n++
	x := s.seed ^ (s.n * 0x9E3779B97F4A7C15)
	x ^= x >> 31
	x *= 0xBF58476D1CE4E5B9
	x ^= x >> 29
	return int(x % uint64(k))
}

func (s *speller) quote(v string) string {
	var sb strings.Builder
	sb.WriteByte('"')
	for i := 0; i < len(v); {
		r, n := utf8.DecodeRuneInString(v[i:])
		b := v[i]
		switch {
		case r == utf8.RuneError && n == 1:
			fmt.Fprintf(&sb, `\x%02x`, b)
		case n > 1:
			switch s.next(3) {
			case 0:
				sb.WriteString(v[i : i+n])
			case 1:
				if r <= 0xffff {
					fmt.Fprintf(&sb, `\u%04x`, r)
				} else {
					fmt.Fprintf(&sb, `\U%08x`, r)
				}
			default:
				for _, bb := range []byte(v[i : i+n]) {
					fmt.Fprintf(&sb, `\x%02x`, bb)
				}
			}
		case b == '"':
			sb.WriteString([]string{`\"`, `\x22`, `\042`}[s.next(3)])
		case b == '\\':
			sb.WriteString([]string{`\\`, `\x5c`, `\134`}[s.next(3)])
		case b == '\n':
			sb.WriteString([]string{`\n`, `\x0a`, `\012`}[s.next(3)])
		case b == '\t':
			sb.WriteString([]string{`\t`, "\t", `\x09`}[s.next(3)])
		case b < 0x20 || b == 0x7f:
			fmt.Fprintf(&sb, `\x%02x`, b)
		default:
			switch s.next(6) {
			case 0:
				fmt.Fprintf(&sb, `\x%02x`, b)
			case 1:
				fmt.Fprintf(&sb, `\%03o`, b)
			default:
				sb.WriteByte(b)
			}
		}
		i += n
	}
	sb.WriteByte('"')
	return sb.String()
}

// ---- generator ----

var c19Strings = []string{"a", "x y", " lead", "trail ", "q\"q", "back\\slash", "\\\"", "\" ", " \"", "é", "日本", "tab\tx", "nl\nx", "a:b", "key:\"v\"", "`tick`", "\x01", "\xff", "", "long value with several words", "=", "-", "--"}

func c19Str(t *rapid.T, label string) string {
	if rapid.IntRange(0, 9).Draw(t, label+"Rnd") < 3 {
		return rapid.StringN(0, 8, 24).Draw(t, label)
	}
	return rapid.SampledFrom(c19Strings).Draw(t, label)
}

var c19Decl = &GenCfg{Depth: 2, Fanout: 2, MaxOpts: 3, MaxGroups: 2, NestGroups: 2, Kinds: []Kind{KString, KInt, KBool, KStringSlice, KMapSS, KBoolSlice, KFunc0, KFuncS, KFloat64, KIntPtr},
	Pos: true, PosPct: 30, PosReq: true, Ns: true, EnvNs: true, Req: 15, Choices: true, Defaults: true, OptArg: true, Hidden: true, Desc: true, Env: true, Bases: true,
	Aliases: true, SubOpt: 40, NonASCII: true, CmdPct: 60, NsDelims: []string{"-", "::", ""}, StaticTwins: true}

func genC19(t *rapid.T) *C19Case {
	d := genDecl(t, c19Decl)
	c := &C19Case{D: d, SpellSeed: rapid.Uint64().Draw(t, "spellSeed"), ViaNew: rapid.IntRange(0, 3).Draw(t, "viaNew") == 0}
	// arbitrary text in free-form attributes
	d.EachCmd(func(cm *Cmd, _ []*Cmd) {
		if cm != &d.Root {
			if rapid.Bool().Draw(t, "cmdText") {
				cm.Desc = c19Str(t, "cmdDesc")
				cm.LongDesc = c19Str(t, "cmdLong")
			}
			for i := range cm.Aliases {
				if rapid.IntRange(0, 3).Draw(t, "aliasText") == 0 {
					cm.Aliases[i] = cm.Aliases[i] + c19Str(t, "alias")
				}
			}
		}
		if cm.Pos != nil {
			for i := range cm.Pos.Args {
				if rapid.Bool().Draw(t, "posText") {
					cm.Pos.Args[i].Name = c19Str(t, "posName")
					cm.Pos.Args[i].Desc = c19Str(t, "posDesc")
				}
			}
		}
		cm.G.EachGroup(func(g *Group, parents []*Group) {
			if g.Static {
				return // (a statically declared type: nothing about its options can vary)
			}
			if len(parents) > 0 && g.Field != "" && rapid.Bool().Draw(t, "grpText") {
				g.LongDesc = c19Str(t, "grpLong")
				if g.EnvNamespace != "" {
					g.EnvNamespace = g.EnvNamespace + c19Str(t, "envNs")
				}
			}
			for i := range g.Options {
				o := &g.Options[i]
				// names are taken literally, blanks included
				if o.Long != "" && rapid.IntRange(0, 19).Draw(t, "blankName") == 0 {
					o.Long = rapid.SampledFrom([]string{" ", "\u00a0", "\t"}).Draw(t, "blankLead") + o.Long
				} else if o.Long != "" && rapid.IntRange(0, 19).Draw(t, "blankNameTail") == 0 {
					o.Long += rapid.SampledFrom([]string{" ", "\u00a0", "  "}).Draw(t, "blankTail")
				}
				if rapid.IntRange(0, 39).Draw(t, "blankShort") == 0 {
					o.Short = rapid.SampledFrom([]string{"\u00a0", " ", "\u3000"}).Draw(t, "blankShortRune")
				}
				if rapid.Bool().Draw(t, "optText") {
					o.Desc = c19Str(t, "desc")
					if !o.Kind.IsFlag() && !o.Kind.IsFunc() {
						o.ValueName = c19Str(t, "vn")
						o.DefaultMask = c19Str(t, "mask")
						if o.Kind == KString || o.Kind == KStringSlice {
							nd := rapid.IntRange(0, 3).Draw(t, "ndef")
							o.Defaults = nil
							o.Choices = nil
							for j := 0; j < nd; j++ {
								o.Defaults = append(o.Defaults, c19Str(t, "def"))
							}
							if rapid.IntRange(0, 3).Draw(t, "chs") == 0 {
								o.Choices = append(append([]string{}, o.Defaults...), c19Str(t, "choice"), c19Str(t, "choice2"))
							}
						}
					}
					if o.Env != "" {
						o.EnvDelim = c19Str(t, "envDelim")
					}
				}
			}
		})
	})
	// a wide declaration unit: many named options in one struct (duplicate
	// detection and the scan must not depend on how many names came before)
	wide := false
	if len(d.Root.G.Groups) > 0 && rapid.IntRange(0, 19).Draw(t, "wideUnit") == 0 {
		wide = true
		g0 := &d.Root.G.Groups[0]
		used := map[string]bool{"h": true}
		for _, o := range d.AllOpts() {
			used[o.Short] = true
		}
		runes := []rune("abcdefgijklmnopqrstuvwxyzABCDEFGHIJKLMNOPQRSTUVWXYZ0123456789")
		for i, n := 0, 8+uniformInt(t, "wideN", 17); i < n; i++ {
			o := Opt{ID: fmt.Sprintf("w%d", i), Field: fmt.Sprintf("W%d", i), Kind: rapid.SampledFrom([]Kind{KString, KInt, KBool}).Draw(t, "wideKind")}
			if rapid.IntRange(0, 3).Draw(t, "wideLong") != 0 {
				o.Long = fmt.Sprintf("wide%d", i)
			}
			if r := string(runes[i%len(runes)]); !used[r] && (o.Long == "" || rapid.Bool().Draw(t, "wideShort")) {
				o.Short, used[r] = r, true
			}
			if o.Long == "" && o.Short == "" {
				o.Long = fmt.Sprintf("wide%d", i)
			}
			g0.Options = append(g0.Options, o)
		}
	}
	// one injected fault (or none)
	var opts []*OptInfo
	for _, o := range d.AllOpts() {
		if !o.Groups[len(o.Groups)-1].Static {
			opts = append(opts, o)
		}
	}
	if len(opts) == 0 {
		return c
	}
	pick := func(label string) *Opt { return opts[rapid.IntRange(0, len(opts)-1).Draw(t, label)].Opt }
	sp := &speller{seed: c.SpellSeed ^ 0xabcdef}
	fault := rapid.IntRange(0, 9).Draw(t, "fault")
	if wide && rapid.IntRange(0, 2).Draw(t, "wideDup") != 0 {
		fault = 4
	}
	switch fault {
	case 0: // decoys: repeated single-valued keys, earlier values must lose
		o := pick("decoyOpt")
		tag := ""
		if o.Long != "" {
			tag += "long:" + sp.quote("decoy-"+o.Long) + " "
		}
		if o.Desc != "" {
			tag += "description:" + sp.quote("decoy") + "  "
		}
		tag += "required:" + sp.quote("") + " "
		rt := tag + renderTagSpelled(o, sp)
		o.RawTag = &rt
		c.Note = "repeated keys"
	case 1: // malformed at some position
		o := pick("malOpt")
		base := renderTagSpelled(o, sp)
		if base == "" {
			break
		}
		pos := rapid.IntRange(0, len(base)-1).Draw(t, "malPos")
		var rt string
		switch rapid.IntRange(0, 5).Draw(t, "malKind") {
		case 0: // remove the next colon
			if i := strings.Index(base[pos:], ":\""); i >= 0 {
				rt = base[:pos+i] + base[pos+i+1:]
			}
		case 1: // remove the next quote character
			if i := strings.Index(base[pos:], "\""); i >= 0 {
				rt = base[:pos+i] + base[pos+i+1:]
			}
		case 2: // raw newline
			rt = base[:pos] + "\n" + base[pos:]
		case 3: // invalid escape inside the next value
			if i := strings.Index(base[pos:], ":\""); i >= 0 {
				rt = base[:pos+i+2] + `\q` + base[pos+i+2:]
			}
		case 4: // truncation
			rt = base[:pos]
		case 5: // stray text
			rt = base[:pos] + " stray " + base[pos:]
		}
		if rt != "" {
			o.RawTag = &rt
			c.Note = "mutated tag"
		}
	case 5: // malformed tag on a nested group's or a by-tag command's struct field
		var gs []*Group
		var cs []*Cmd
		d.EachCmd(func(cm *Cmd, _ []*Cmd) {
			if cm != &d.Root && cm.ByTag {
				cs = append(cs, cm)
			}
			cm.G.EachGroup(func(g *Group, parents []*Group) {
				if len(parents) > 0 && g.Field != "" && (cm.ByTag || len(parents) > 1) {
					gs = append(gs, g)
				}
			})
		})
		bad := rapid.SampledFrom([]string{`group"x"`, `group:"x`, `command:x`, `group:"x" namespace:"\q"`, "group:\"a\nb\"", `description:"d" group`, `command:"c" alias:"a`}).Draw(t, "badFieldTag")
		// ... or on a field of a positional-args struct
		var pas []*PosArg
		d.EachCmd(func(cm *Cmd, _ []*Cmd) {
			if cm.Pos != nil {
				for i := range cm.Pos.Args {
					pas = append(pas, &cm.Pos.Args[i])
				}
			}
		})
		if len(pas) > 0 && rapid.IntRange(0, 2).Draw(t, "badPosTag") == 0 {
			pb := rapid.SampledFrom([]string{`description:"where to`, `positional-arg-name`, `positional-arg-name:"x" description:d`, `required:"1" description:"a\qb"`, "description:\"a\nb\""}).Draw(t, "badPosTagText")
			pas[rapid.IntRange(0, len(pas)-1).Draw(t, "badPosAt")].RawTag = &pb
			c.Note = "malformed positional field tag"
		} else if len(gs)+len(cs) > 0 {
			i := rapid.IntRange(0, len(gs)+len(cs)-1).Draw(t, "badFieldAt")
			if i < len(gs) {
				gs[i].RawTag = &bad
			} else {
				cs[i-len(gs)].RawTag = &bad
			}
			c.Note = "malformed group/command field tag"
		}
	case 2: // short name too long
		o := pick("shortOpt")
		o.Short = rapid.SampledFrom([]string{"ab", "éé", "xyz", "a ", "日本", " b", "v\u00a0", "\u00a0\u00a0"}).Draw(t, "longShort")
		c.Note = "short name too long"
	case 3: // default on a flag
		for _, oi := range opts {
			if oi.Kind.IsFlag() {
				oi.Opt.Defaults = []string{rapid.SampledFrom([]string{"true", "false", "", "x"}).Draw(t, "flagDefault")}
				c.Note = "default on a flag"
				break
			}
		}
	case 4: // duplicate names inside one declaration
		a := opts[rapid.IntRange(0, len(opts)-1).Draw(t, "dupA")]
		var same []*OptInfo
		for _, b := range opts {
			if b != a && b.Cmd == a.Cmd && b.Groups[0] == a.Groups[0] && (len(a.Groups) == 1 || len(b.Groups) == 1 || a.Groups[1] == b.Groups[1]) {
				same = append(same, b)
			}
		}
		if len(same) == 0 {
			break
		}
		b := same[rapid.IntRange(0, len(same)-1).Draw(t, "dupB")]
		if rapid.Bool().Draw(t, "dupShort") && a.Short != "" {
			b.Opt.Short = a.Short
			c.Note = "duplicate short name"
		} else if a.Long != "" {
			// make the namespaced names collide: b's namespaced prefix + long == a's
			pa := strings.TrimSuffix(a.NsLong, a.Long)
			pb := ""
			if b.Long != "" {
				pb = strings.TrimSuffix(b.NsLong, b.Long)
			} else {
				pb = nsPrefixOf(d, b)
			}
			if strings.HasPrefix(a.NsLong, pb) && len(a.NsLong) > len(pb) {
				b.Opt.Long = a.NsLong[len(pb):]
				c.Note = "duplicate long name"
				if pa != pb {
					c.Note = "duplicate long name created by namespaces"
				}
			}
		}
	}
	return c
}

func nsPrefixOf(d *Decl, o *OptInfo) string {
	p := ""
	for _, g := range o.Groups {
		if g.Namespace != "" {
			p += g.Namespace + d.NsD()
		}
	}
	return p
}

// renderTagSpelled renders the option's tag from its semantic fields with
// varied escape spellings and spacing.
func renderTagSpelled(o *Opt, sp *speller) string {
	oldQ, oldS := TagQuoter, TagSep
	TagQuoter = sp.quote
	TagSep = func() string { return strings.Repeat(" ", 1+sp.next(3)) }
	defer func() { TagQuoter, TagSep = oldQ, oldS }()
	saved := o.RawTag
	o.RawTag = nil
	s := o.Tag()
	o.RawTag = saved
	return s
}

// ---- oracle ----

type semOpt struct {
	Short, Long, Desc, Env, EnvDelim, ValueName, Mask string
	Defaults, OptVals, Choices                        []string
	Optional, Required, Hidden                        bool
	IsOption                                          bool
	NoFlag                                            bool
}

func truthy(s string) (bool, bool) {
	switch s {
	case "":
		return false, true
	case "false", "no", "0":
		return false, false // documentation ("non-empty") and code disagree: unsettled
	}
	return true, true
}

func semFromPairs(p [][2]string) (semOpt, bool) {
	s := semOpt{Short: pairsGet(p, "short"), Long: pairsGet(p, "long"), Desc: pairsGet(p, "description"), Env: pairsGet(p, "env"),
		EnvDelim: pairsGet(p, "env-delim"), ValueName: pairsGet(p, "value-name"), Mask: pairsGet(p, "default-mask"),
		Defaults: pairsMany(p, "default"), OptVals: pairsMany(p, "optional-value"), Choices: pairsMany(p, "choice")}
	settled := true
	var ok bool
	if s.Optional, ok = truthy(pairsGet(p, "optional")); !ok {
		settled = false
	}
	if s.Required, ok = truthy(pairsGet(p, "required")); !ok {
		settled = false
	}
	if s.Hidden, ok = truthy(pairsGet(p, "hidden")); !ok {
		settled = false
	}
	s.NoFlag = pairsGet(p, "no-flag") != ""
	s.IsOption = !s.NoFlag && (s.Long != "" || s.Short != "" || pairsGet(p, "ini-name") != "")
	return s, settled
}

func strsEq(a, b []string) bool { return strSliceEq(a, b) }

func c19Oracle(c *C19Case) string {
	st := S("C19")
	d := c.D
	// spelled rendering for every tag that is not given verbatim
	sp := &speller{seed: c.SpellSeed}
	oldQ, oldS := TagQuoter, TagSep
	TagQuoter = sp.quote
	TagSep = func() string { return strings.Repeat(" ", 1+sp.next(3)) }
	defer func() { TagQuoter, TagSep = oldQ, oldS }()
	// freeze the spelled tags so that reference and library see the same text
	frozen := map[*Opt]*string{}
	for _, o := range d.AllOpts() {
		if o.RawTag == nil {
			s := o.Opt.Tag()
			frozen[o.Opt] = nil
			o.Opt.RawTag = &s
		}
	}
	defer func() {
		for o := range frozen {
			o.RawTag = nil
		}
	}()
	expect := map[flags.ErrorType]bool{}
	unsettled := false
	sems := map[string]semOpt{}
	for _, o := range d.AllOpts() {
		pairs, v := refScanTag(*o.RawTag)
		switch v {
		case tagUnsettled:
			unsettled = true
			continue
		case tagMalformed:
			expect[flags.ErrTag] = true
			continue
		}
		sem, settled := semFromPairs(pairs)
		if !settled || strings.ContainsRune(sem.Short, 0) {
			// (a NUL short name coincides with the model's "no short name" value
			// and cannot occur in an argument vector anyway)
			unsettled = true
		}
		sems[o.ID] = sem
		if _, byConstruction := frozen[o.Opt]; byConstruction {
			// model known by construction: the scanner must read back the declared attributes
			if sem.Short != o.Short || sem.Long != o.Long || sem.Desc != o.Desc || !strsEq(sem.Defaults, o.Defaults) || !strsEq(sem.Choices, o.Choices) || !strsEq(sem.OptVals, o.OptVals) || sem.Env != o.Env || sem.EnvDelim != o.EnvDelim || sem.ValueName != o.ValueName || sem.Mask != o.DefaultMask {
				return fmt.Sprintf("harness inconsistency: reference scanner reads %+v from %q, declared %+v", sem, *o.RawTag, *o.Opt)
			}
		}
		if !sem.IsOption {
			continue
		}
		if utf8.RuneCountInString(sem.Short) > 1 {
			expect[flags.ErrShortNameTooLong] = true
		}
		if o.Kind.IsFlag() && len(sem.Defaults) > 0 {
			expect[flags.ErrInvalidTag] = true
		}
	}
	// verbatim tags on group / command struct fields
	d.EachCmd(func(cm *Cmd, _ []*Cmd) {
		check := func(raw *string) {
			if raw == nil {
				return
			}
			switch _, v := refScanTag(*raw); v {
			case tagMalformed:
				expect[flags.ErrTag] = true
			default:
				unsettled = true // only malformed field tags are generated
			}
		}
		check(cm.RawTag)
		cm.G.EachGroup(func(g *Group, _ []*Group) { check(g.RawTag) })
		if cm.Pos != nil {
			for i := range cm.Pos.Args {
				check(cm.Pos.Args[i].RawTag)
			}
		}
	})
	// duplicates per declaration unit (one added struct / one command struct)
	d.EachCmd(func(cm *Cmd, chain []*Cmd) {
		units := map[*Group][]*OptInfo{}
		for _, o := range d.CmdOpts(cm, chain) {
			unit := o.Groups[0]
			if !cm.ByTag && len(o.Groups) > 1 {
				unit = o.Groups[1]
			}
			units[unit] = append(units[unit], o)
		}
		for _, list := range units {
			shorts, longs := map[string]bool{}, map[string]bool{}
			for _, o := range list {
				sem, ok := sems[o.ID]
				if !ok || !sem.IsOption {
					continue
				}
				if sem.Short != "" && utf8.RuneCountInString(sem.Short) == 1 {
					if shorts[sem.Short] {
						expect[flags.ErrDuplicatedFlag] = true
					}
					shorts[sem.Short] = true
				}
				if sem.Long != "" {
					n := nsPrefixOf(d, o) + sem.Long
					if longs[n] {
						expect[flags.ErrDuplicatedFlag] = true
					}
					longs[n] = true
				}
			}
		}
	})
	if unsettled {
		st.Label("skip comparison: tag form whose meaning is not settled")
	}
	// real
	var b *Built
	var setupErr error
	pm := Safely(func() {
		b = Build(d)
		setupErr = b.Err
		// (with NewParser the declaration is scanned before a custom namespace
		// delimiter can be set, so the comparison only applies to the default one)
		if c.ViaNew && len(d.Root.G.Groups) > 0 && d.NsDelim == nil {
			// the NewParser path reports the declaration error on first use
			bl := &builder{b: &Built{D: d, OptVal: map[string]reflect.Value{}, PlainVal: map[string]reflect.Value{}, PlainIni: map[string]interface{}{}, PosVal: map[string]reflect.Value{}, Cmds: map[string]*flags.Command{}, Detached: map[string]string{}}, d: d}
			g0 := &d.Root.G.Groups[0]
			tp := bl.groupType(g0, &d.Root)
			v := reflect.New(tp)
			bl.bindGroup(d.Root.ID, g0.Field, g0, v.Elem(), &d.Root, 0, false, "")
			p := flags.NewParser(v.Interface(), flags.None)
			p.SubcommandsOptional = true
			_, err := p.ParseArgs(nil)
			if fe := FlagsErr(err); fe != nil && (fe.Type == flags.ErrTag || fe.Type == flags.ErrShortNameTooLong || fe.Type == flags.ErrInvalidTag || fe.Type == flags.ErrDuplicatedFlag) {
				if setupErr == nil {
					setupErr = fmt.Errorf("NewParser path reports %v but AddGroup accepted the same declaration", fe.Type)
				}
			} else if setupErr != nil && len(d.Root.G.Groups) == 1 && len(progCmds(&d.Root)) == 0 {
				setupErr = fmt.Errorf("AddGroup reports %v but the NewParser path accepted the same declaration on first use (%v)", setupErr, err)
			}
		}
	})
	if pm != "" {
		return "setup panicked: " + pm
	}
	if strings.Contains(fmt.Sprint(setupErr), "path") && FlagsErr(setupErr) == nil {
		return setupErr.Error()
	}
	if c.Note != "" {
		st.Label("case: " + c.Note)
	}
	nt := c.Note != ""
	if len(expect) > 0 && !unsettled {
		if setupErr == nil {
			return fmt.Sprintf("declaration fault %v expected (%s) but the parser was built without error", keysOf(expect), c.Note)
		}
		fe := FlagsErr(setupErr)
		if fe == nil || !expect[fe.Type] {
			return fmt.Sprintf("expected setup error of type %v (%s), got %T %v", keysOf(expect), c.Note, setupErr, setupErr)
		}
		st.Label("rejected: " + fe.Type.String())
		if nt {
			st.NonTrivial(declSig(d)+c.Note+fmt.Sprint(c.SpellSeed%97), map[string]interface{}{"note": c.Note, "error": fe.Message})
		}
		return ""
	}
	if setupErr != nil {
		if unsettled {
			return ""
		}
		return fmt.Sprintf("well-formed declaration rejected: %v", setupErr)
	}
	if unsettled {
		return ""
	}
	// compare the public model
	if m := c19CompareModel(d, b, sems); m != "" {
		return m
	}
	st.Label("model compared")
	// the model must describe the caller's data: options or positionals registered
	// on a struct that the caller's (pointer) field does not lead to are mis-read
	for id, why := range b.Detached {
		return fmt.Sprintf("the parser's model contains %s, but the caller's struct does not hold its field: %s", id, why)
	}
	escaped := false
	for _, o := range d.AllOpts() {
		if strings.Contains(*o.RawTag, `\"`) || strings.Contains(*o.RawTag, `\\`) || len(*o.RawTag) != utf8.RuneCountInString(*o.RawTag) || strings.Contains(*o.RawTag, `\x`) {
			escaped = true
		}
	}
	if escaped || nt {
		st.NonTrivial(declSig(d)+fmt.Sprint(c.SpellSeed), map[string]interface{}{"note": c.Note, "sample_tag": *d.AllOpts()[0].RawTag})
	}
	return ""
}

func progCmds(c *Cmd) []*Cmd {
	var r []*Cmd
	for i := range c.Cmds {
		if !c.Cmds[i].ByTag {
			r = append(r, &c.Cmds[i])
		}
	}
	return r
}

func keysOf(m map[flags.ErrorType]bool) []string {
	var r []string
	for k := range m {
		r = append(r, k.String())
	}
	return r
}

func c19CompareModel(d *Decl, b *Built, sems map[string]semOpt) string {
	var msg string
	d.EachCmd(func(cm *Cmd, chain []*Cmd) {
		if msg != "" {
			return
		}
		lc := b.Cmds[cm.ID]
		if lc == nil {
			msg = fmt.Sprintf("command %s (%q) not found in the parser's model", cm.ID, cm.Name)
			return
		}
		if cm != &d.Root {
			if lc.Name != cm.Name || !strsEq(lc.Aliases, cm.Aliases) || lc.ShortDescription != cm.Desc || lc.LongDescription != cm.LongDesc || lc.SubcommandsOptional != cm.SubOpt || lc.Hidden != cm.Hidden {
				msg = fmt.Sprintf("command %q: model has name=%q aliases=%q desc=%q long=%q subopt=%v hidden=%v, declared aliases=%q desc=%q long=%q subopt=%v hidden=%v",
					cm.Name, lc.Name, lc.Aliases, lc.ShortDescription, lc.LongDescription, lc.SubcommandsOptional, lc.Hidden, cm.Aliases, cm.Desc, cm.LongDesc, cm.SubOpt, cm.Hidden)
				return
			}
		}
		// positionals
		args := lc.Args()
		nArgs := 0
		if cm.Pos != nil {
			nArgs = len(cm.Pos.Args)
			if lc.ArgsRequired != (cm.Pos.Required != "") {
				msg = fmt.Sprintf("command %q: ArgsRequired=%v, declared required:%q", cm.Name, lc.ArgsRequired, cm.Pos.Required)
				return
			}
		}
		if len(args) != nArgs {
			msg = fmt.Sprintf("command %q: %d positional arguments in the model, %d declared", cm.Name, len(args), nArgs)
			return
		}
		for i := 0; i < nArgs; i++ {
			pa := &cm.Pos.Args[i]
			min, max := posReq(pa)
			if args[i].Name != pa.DisplayName() || args[i].Description != pa.Desc || args[i].Required != min || args[i].RequiredMaximum != max {
				msg = fmt.Sprintf("positional %d of %q: model (%q,%q,%d,%d), declared (%q,%q,%d,%d)", i, cm.Name, args[i].Name, args[i].Description, args[i].Required, args[i].RequiredMaximum, pa.DisplayName(), pa.Desc, min, max)
				return
			}
		}
		// groups and options
		var walk func(lg *flags.Group, g *Group, path string)
		walk = func(lg *flags.Group, g *Group, path string) {
			if msg != "" {
				return
			}
			if g != &cm.G {
				if lg.ShortDescription != g.Desc || lg.LongDescription != g.LongDesc || lg.Namespace != g.Namespace || lg.EnvNamespace != g.EnvNamespace || lg.Hidden != g.Hidden {
					msg = fmt.Sprintf("group %s: model (%q,%q,ns=%q,envns=%q,hidden=%v), declared (%q,%q,ns=%q,envns=%q,hidden=%v)", path, lg.ShortDescription, lg.LongDescription, lg.Namespace, lg.EnvNamespace, lg.Hidden, g.Desc, g.LongDesc, g.Namespace, g.EnvNamespace, g.Hidden)
					return
				}
			}
			var want []*Opt
			for i := range g.Options {
				if s, ok := sems[g.Options[i].ID]; ok && s.IsOption {
					want = append(want, &g.Options[i])
				}
			}
			lopts := lg.Options()
			if len(lopts) != len(want) {
				msg = fmt.Sprintf("group %s: %d options in the model, %d declared", path, len(lopts), len(want))
				return
			}
			for i, o := range want {
				s := sems[o.ID]
				lo := lopts[i]
				short := ""
				if lo.ShortName != 0 {
					short = string(lo.ShortName)
				}
				if short != s.Short || lo.LongName != s.Long || lo.Description != s.Desc || !strsEq(lo.Default, s.Defaults) || lo.EnvDefaultKey != s.Env || lo.EnvDefaultDelim != s.EnvDelim ||
					lo.OptionalArgument != s.Optional || !strsEq(lo.OptionalValue, s.OptVals) || lo.Required != s.Required || lo.ValueName != s.ValueName || lo.DefaultMask != s.Mask ||
					!strsEq(lo.Choices, s.Choices) || lo.Hidden != s.Hidden {
					msg = fmt.Sprintf("option %s (field %s) tag %q:\n model    short=%q long=%q desc=%q default=%q env=%q delim=%q optional=%v optvals=%q required=%v valuename=%q mask=%q choices=%q hidden=%v\n declared %+v",
						o.ID, o.Field, *o.RawTag, short, lo.LongName, lo.Description, lo.Default, lo.EnvDefaultKey, lo.EnvDefaultDelim, lo.OptionalArgument, lo.OptionalValue, lo.Required, lo.ValueName, lo.DefaultMask, lo.Choices, lo.Hidden, s)
					return
				}
				if lo.Field().Name != o.Field {
					msg = fmt.Sprintf("option %s bound to field %s, declared on field %s", o.ID, lo.Field().Name, o.Field)
					return
				}
			}
			lgs := lg.Groups()
			if len(lgs) != len(g.Groups) {
				msg = fmt.Sprintf("group %s: %d sub-groups in the model, %d declared", path, len(lgs), len(g.Groups))
				return
			}
			for i := range g.Groups {
				walk(lgs[i], &g.Groups[i], path+"/"+g.Groups[i].Desc)
			}
		}
		walk(lc.Group, &cm.G, cm.Name)
	})
	return msg
}

func TestC19(t *testing.T) {
	S("C19").Rule = "declarations (options of 10 types, nested groups with namespaces/env-namespaces, commands by tag and programmatic with aliases, positionals with N / N-M counts) whose tag values are arbitrary strings (quotes, backslashes, edge blanks, non-ASCII, control characters, invalid bytes) spelled with a per-character random escape (raw, \\\", \\\\, \\xNN, \\NNN, \\uNNNN) and 1-3 blanks between pairs; plus one of: repeated single-valued keys (earlier values must lose), a mutation of a well-formed tag at a random position (colon or quote removed, raw newline, invalid escape, truncation, stray text), a malformed tag on a nested group's or command's struct field, short name of 2+ characters, default on a flag, two options of one declaration with the same short or namespaced long name (also collisions created only by namespaces). oracle: reference scanner of the conventional tag syntax decides well-formed/malformed; well-formed => the exported model (Option/Group/Command/Arg fields, order, field binding) equals the declared attributes (last value for single-valued keys, all in order for default/choice/optional-value/alias); faults => ErrTag / ErrShortNameTooLong / ErrInvalidTag / ErrDuplicatedFlag from AddGroup/AddCommand and from NewParser+ParseArgs. non-trivial: a tag with escapes or non-ASCII, or an injected fault; distinct by (declaration signature, spelling seed)"
	runProp(t, "C19", genC19, c19Oracle)
}

// FuzzTag: arbitrary bytes as one field's tag.
func FuzzTag(f *testing.F) {
	for _, s := range []string{`long:"a"`, `short:"ab"`, `long:"a" long:"b"`, `long:"a`, `long"a"`, `long:a`, "long:\"a\nb\"", `long:"\q"`, `long:"\"" description:"\\"`, `  long:"x"  `, `default:"1" default:"2" long:"d"`, `:"x"`, `long:"é" short:"é"`, "", `choice:"a" choice:"b" long:"c"`} {
		f.Add([]byte(s), uint8(0))
	}
	f.Fuzz(func(t *testing.T, raw []byte, kind uint8) {
		tag := string(raw)
		k := []Kind{KString, KBool, KStringSlice, KInt}[int(kind)%4]
		d := &Decl{Root: Cmd{ID: "root", Name: "app"}}
		d.Root.G.Groups = []Group{{Field: "G0", Desc: "Application Options", Options: []Opt{{ID: "o1", Field: "Opt", Kind: k, RawTag: &tag}}}}
		c := &C19Case{D: d, SpellSeed: 1, ViaNew: kind&4 != 0}
		S("C19").Eval()
		if m := c19Oracle(c); m != "" {
			RecordFail("C19", c, m)
			t.Fatal(m)
		}
	})
}
