package props

// Generators: declarations (Decl) and argument vectors. All randomness comes
// from rapid draws so that cases shrink and replay.

import (
	"fmt"
	"math/big"
	"strconv"
	"strings"

	flags "github.com/jessevdk/go-flags"
	"pgregory.net/rapid"
)

// SelfWord is the running program's own invocation name: TestMain sets
// os.Args[0] to it, so that argument vectors can contain "the program's name"
// as an ordinary word and stay pure data.
const SelfWord = "selfprog"

var signedKinds = map[Kind]bool{KInt: true, KInt8: true, KInt16: true, KInt32: true, KInt64: true, KLvl: true}

var (
	AllArgKinds = []Kind{KString, KStringPtr, KStringSlice, KInt, KInt8, KInt16, KInt32, KInt64, KUint, KUint8, KUint16,
		KUint32, KUint64, KIntSlice, KIntPtr, KUint8Slice, KFloat32, KFloat64, KFloatSlice, KDuration, KDurSlice, KDurPtr, KMapSS, KMapSI, KMapIS, KMapFS,
		KUpper, KUpperSlice, KTri, KValid, KLvl, KMapSB}
	FlagKinds = []Kind{KBool, KBoolSlice, KBoolPtr, KToggle}
	FuncKinds = []Kind{KFunc0, KFuncS, KFuncI, KFunc0E, KFuncSE, KFuncSS}
	AllKinds  = append(append(append([]Kind{}, AllArgKinds...), FlagKinds...), FuncKinds...)
)

type GenCfg struct {
	Depth      int // max command depth below root
	Fanout     int
	MaxOpts    int // per group
	MaxGroups  int // top-level groups per command
	NestGroups int // nesting depth of groups
	Kinds      []Kind
	Pos        bool
	PosPct     int // percent of commands with positionals (default 40)
	Ns         bool
	EnvNs      bool
	Req        int // percent of options marked required
	Choices    bool
	FlagChoice bool // also put choices on flags (accepted by the library)
	CbErr      bool // error-returning callbacks may fail
	FieldPool  bool // field names from a small pool (unique per struct only, as in real programs)
	Defaults   bool
	Env        bool
	OptArg     bool
	Hidden     bool
	Desc       bool
	Plain      bool
	Initial    bool
	Bases      bool
	Unquote    bool
	Aliases    bool
	SubOpt     int // percent of commands with optional subcommands
	ParserOpts []flags.Options
	NsDelims   []string
	NonASCII   bool
	PosReq     bool
	PosSplit   bool // sometimes declare the positionals in two positional-args structs
	ProgOnly   bool // only programmatic (executable) commands
	ByTagPct   int  // percent of commands declared by tag (default 50)
	CmdPct     int  // percent of commands (below max depth) having sub-commands (default 70)
	NoBig      bool // never scale the bounds up
	NoPtr      bool // no pointer-typed group/command fields, no options inside untagged struct fields
	InCode     int  // percent of options some of whose attributes are assigned in code instead of by tag
	NoFlag     bool // fields marked no-flag that would otherwise declare options
	ViaAdd     int  // percent of groups whose last option(s) are added with Group.AddOption
	// StaticTwins: occasionally two nested groups whose struct is the same named,
	// statically declared type (their options cannot be altered afterwards)
	StaticTwins bool
}

// uniformInt draws an (almost exactly) uniform integer in [0, n). rapid's own
// integer generators are deliberately biased towards small values and range
// ends (IntRange(0,99) >= 10 holds in 58% of draws, not 90%), which distorts
// every "with probability p" decision; fair bits are not biased. All-false bits
// (what shrinking tends to) give 0.
func uniformInt(t *rapid.T, label string, n int) int {
	if n <= 1 {
		return 0
	}
	bits := rapid.SliceOfN(rapid.Bool(), 16, 16).Draw(t, label)
	v := 0
	for _, b := range bits {
		v <<= 1
		if b {
			v |= 1
		}
	}
	return v % n
}

// pct is true with probability p percent; 0 bits mean "no" so that shrinking
// removes features.
func pct(t *rapid.T, label string, p int) bool {
	if p <= 0 {
		return false
	}
	if p >= 100 {
		return true
	}
	return uniformInt(t, label, 100) >= 100-p
}

// weighted picks an index according to weights.
func weighted(t *rapid.T, label string, w []int) int {
	sum := 0
	for _, x := range w {
		sum += x
	}
	if sum == 0 {
		return 0
	}
	n := uniformInt(t, label, sum)
	for i, x := range w {
		if n < x {
			return i
		}
		n -= x
	}
	return len(w) - 1
}

var (
	shortPoolASCII = []string{"a", "b", "c", "v", "x", "n", "s", "q"}
	shortPoolUni   = []string{"é", "λ", "中", "я", "ß"}
	longPool       = []string{"ver", "verbose", "Verbose", "verbose2", "name", "n-x", "b.c", "a", "opt", "long-name", "x", "ab", "a.b", "c"}
	longPoolUni    = []string{"é-l", "名前", "größe"}
	cmdPool        = []string{"add", "rm", "list", "ls", "co", "ad", "remove", "a", "commit", "é"}
	nsPool         = []string{"a", "ns", "a.b", "db", "x-y"}
	stringPool     = []string{"", "x", "hello world", "a=b", "=lead", "-dash", "--dd", "é中", "k:v", "\"q\"", "\"unterminated", " lead", "trail ", "a,b", "--", "-", "---x", "-5", "0", "véry long value with spaces and = signs", "\\back", "tab\tx", "new\nline",
		"'", "''", "'quoted'", "snake_case_value", "dir/my_file", "trailing\\", "C:\\data\\", "UPPER", " ", "%d %s 100%", "true", "no-x", "007", "${HOME}/data", "$HOME", "${}", "${x}-${y}.tar.gz", "help", "caf\xe9.txt", "\xff\xfe", "a\xc3", "=\xe9"}
)

type declGen struct {
	t       *rapid.T
	cfg     *GenCfg
	nOpt    int
	nGrp    int
	nCmd    int
	nEnv    int
	nField  int
	help    bool
	nsDelim string
	// field names used in the struct currently being generated (FieldPool)
	curFields map[string]bool
	// one level with many sub-commands per declaration at most, and a cap on
	// the total number of commands (nested by-tag command structs make the
	// runtime type descriptions grow quadratically)
	manyCmdsUsed bool
}

func (g *declGen) field(prefix string) string {
	g.nField++
	return fmt.Sprintf("%s%d", prefix, g.nField)
}

type nameSets struct {
	short map[string]bool
	long  map[string]bool
}

func (g *declGen) shortName(ns *nameSets) string {
	pool := shortPoolASCII
	if g.cfg.NonASCII && pct(g.t, "uniShort", 35) {
		pool = shortPoolUni
	}
	s := rapid.SampledFrom(pool).Draw(g.t, "short")
	for tries := 0; ns.short[s] || (g.help && s == "h"); tries++ {
		// construct an unused one deterministically
		all := append(append([]string{}, shortPoolASCII...), shortPoolUni...)
		all = append(all, "d", "e", "f", "g", "i", "j", "k", "l", "m", "o", "p", "r", "t", "u", "w", "y", "z", "A", "B", "C", "D", "E", "F", "G")
		if tries >= len(all) {
			return ""
		}
		s = all[tries]
	}
	ns.short[s] = true
	return s
}

func (g *declGen) longName(ns *nameSets, prefix string) string {
	pool := longPool
	if g.cfg.NonASCII && pct(g.t, "uniLong", 20) {
		pool = longPoolUni
	}
	l := rapid.SampledFrom(pool).Draw(g.t, "long")
	if pct(g.t, "veryLongName", 3) {
		l = l + "-" + strings.Repeat("long", rapid.IntRange(14, 30).Draw(g.t, "longNameRep"))
	}
	for i := 0; ns.long[prefix+l] || (g.help && prefix+l == "help"); i++ {
		l = fmt.Sprintf("%s%d", l, i)
	}
	ns.long[prefix+l] = true
	return l
}

func fmtBig(n *big.Int, base int) string { return n.Text(base) }

// genValidText draws a text that denotes a value of element kind k.
func genValidText(t *rapid.T, k Kind, base int) string {
	if base == 0 {
		base = 10
	}
	if k.IsMap() {
		kk, vk := k.MapKV()
		key := genValidText(t, kk, base)
		if kk == KString {
			key = rapid.SampledFrom([]string{"k", "key", "a", "b", "é", "k2", "x y"}).Draw(t, "mapkey")
		}
		if kk == KFloat64 {
			key = rapid.SampledFrom([]string{"1.5", "2", "0.25", "-3", "10", "1e3"}).Draw(t, "mapfkey")
		}
		return key + ":" + genValidText(t, vk, base)
	}
	k = k.Elem()
	switch k {
	case KValid:
		if pct(t, "okLooking", 35) {
			return rapid.SampledFrom([]string{"-ok", "-ok1", "-okay=x", "-ok -v"}).Draw(t, "okValue")
		}
		return rapid.SampledFrom(stringPool).Draw(t, "str")
	case KString, KComp, KUpper:
		if pct(t, "poolstr", 70) {
			return rapid.SampledFrom(stringPool).Draw(t, "str")
		}
		return rapid.StringN(0, 12, 40).Draw(t, "rstr")
	case KTri:
		return rapid.SampledFrom([]string{"on", "off"}).Draw(t, "tri")
	case KBool:
		return rapid.SampledFrom([]string{"true", "false", "1", "0", "T", "F"}).Draw(t, "bool")
	case KFloat32, KFloat64:
		if pct(t, "floatMidpoint", 8) {
			return FloatMidpointText(t)
		}
		return rapid.SampledFrom([]string{"0", "1.5", "-2.25", "1e3", ".5", "-0", "3.4028235e38", "1e-45", "+1", "Inf", "-inf", "NaN", "0x1p-2", "123456789.125"}).Draw(t, "float")
	case KDuration:
		return rapid.SampledFrom([]string{"0", "1s", "-5m", "1h30m", "100ms", "1.5h", "2562047h", "1ns", "+3s", "-.5s", "-.25h", ".5s"}).Draw(t, "dur")
	}
	if _, ok := intBits[k]; ok {
		min, max := IntLimits(k)
		var n *big.Int
		switch rapid.IntRange(0, 5).Draw(t, "intclass") {
		case 0:
			n = min
		case 1:
			n = max
		case 2:
			n = big.NewInt(0)
		default:
			// random within range: small magnitude mostly
			v := rapid.Int64Range(-300, 300).Draw(t, "int")
			n = big.NewInt(v)
			if n.Cmp(min) < 0 {
				n = new(big.Int).Neg(n)
			}
			if n.Cmp(max) > 0 {
				n = max
			}
		}
		tx := fmtBig(n, base)
		// leading zeros (and, for signed types, an explicit plus sign) denote
		// the same number
		if pct(t, "leadingZeros", 15) {
			z := rapid.SampledFrom([]string{"0", "00", "000"}).Draw(t, "zeros")
			if strings.HasPrefix(tx, "-") {
				tx = "-" + z + tx[1:]
			} else {
				tx = z + tx
			}
		} else if _, signed := signedKinds[k]; signed && n.Sign() >= 0 && pct(t, "plusSign", 6) {
			tx = "+" + tx
		}
		if _, ver := RefOne(k, base, tx); ver != Accept {
			tx = fmtBig(n, base)
		}
		return tx
	}
	panic("genValidText " + string(k))
}

// genInvalidText draws a text that denotes no value of the kind.
func genInvalidText(t *rapid.T, k Kind, base int) string {
	if base == 0 {
		base = 10
	}
	if k.IsMap() {
		_, vk := k.MapKV()
		if vk == KInt {
			return "k:" + genInvalidText(t, KInt, base)
		}
		kk, _ := k.MapKV()
		if kk == KInt {
			return genInvalidText(t, KInt, base) + ":v"
		}
		if kk == KFloat64 {
			return "notafloat:v"
		}
		return "" // map[string]string accepts anything
	}
	k = k.Elem()
	switch k {
	case KString, KComp, KValid:
		return ""
	case KUpper:
		return "x!bad"
	case KTri:
		return rapid.SampledFrom([]string{"true", "On", "maybe"}).Draw(t, "badtri")
	case KBool:
		return "maybe"
	case KFloat32:
		return rapid.SampledFrom([]string{"abc", "", "1e39", "1,5", "1.5.2", " 1", "-", "+", "--"}).Draw(t, "badfloat")
	case KFloat64:
		return rapid.SampledFrom([]string{"abc", "", "1e400", "1,5", "--1", "1 ", "-", "+", "-."}).Draw(t, "badfloat")
	case KDuration:
		return rapid.SampledFrom([]string{"5", "abc", "", "1x", "9223372036854775808ns", "-", "--"}).Draw(t, "baddur")
	}
	if _, ok := intBits[k]; ok {
		min, max := IntLimits(k)
		switch rapid.IntRange(0, 7).Draw(t, "badint") {
		case 6:
			return "-"
		case 7:
			return rapid.SampledFrom([]string{"+", "--", "-x"}).Draw(t, "badsign")
		case 0:
			return fmtBig(new(big.Int).Add(max, big.NewInt(1)), base)
		case 1:
			return fmtBig(new(big.Int).Sub(min, big.NewInt(1)), base)
		case 2:
			return ""
		case 3:
			return "1.5"
		case 4:
			return " 1"
		default:
			return "1_0"
		}
	}
	panic("genInvalidText " + string(k))
}

func (g *declGen) opt(ns *nameSets, nsPrefix string) Opt {
	t, cfg := g.t, g.cfg
	g.nOpt++
	o := Opt{ID: fmt.Sprintf("o%d", g.nOpt), Field: g.field("F"), Kind: rapid.SampledFrom(cfg.Kinds).Draw(t, "kind")}
	if cfg.FieldPool && g.curFields != nil {
		f := rapid.SampledFrom([]string{"Level", "Name", "Verbose", "Value", "Path", "Count", "Mode"}).Draw(t, "fieldName")
		if !g.curFields[f] {
			g.curFields[f] = true
			o.Field = f
		}
	}
	if cfg.CbErr && (o.Kind == KFunc0E || o.Kind == KFuncSE) && pct(t, "cbErr", 40) {
		o.CbErr = true
	}
	hasShort := pct(t, "hasShort", 65)
	hasLong := pct(t, "hasLong", 80) || !hasShort
	if hasShort {
		o.Short = g.shortName(ns)
	}
	if hasLong || o.Short == "" {
		o.Long = g.longName(ns, nsPrefix)
	}
	if cfg.Desc && pct(t, "hasDesc", 70) {
		o.Desc = fmt.Sprintf("description of %s", o.ID)
	}
	if cfg.Hidden && pct(t, "hiddenOpt", 10) {
		o.Hidden = rapid.SampledFrom([]string{"yes", "1", "true", "x"}).Draw(t, "hiddenVal")
	}
	if pct(t, "required", cfg.Req) {
		o.Required = rapid.SampledFrom([]string{"yes", "1", "true", "x"}).Draw(t, "reqVal")
	}
	k := o.Kind
	if _, isInt := intBits[k.Elem()]; (isInt || k == KMapSI || k == KMapIS) && cfg.Bases && pct(t, "hasBase", 25) {
		o.Base = rapid.SampledFrom([]int{2, 8, 16, 36, 3}).Draw(t, "base")
	}
	if k.IsFlag() && cfg.FlagChoice && pct(t, "flagChoice", 8) {
		o.Choices = []string{"x"}
	}
	if k.IsFlag() || k.IsFunc() {
		return o
	}
	multi := 1
	if k.IsMulti() {
		multi = 2
	}
	if cfg.Choices && pct(t, "hasChoices", 12) {
		n := rapid.IntRange(1, 3).Draw(t, "nchoices")
		if pct(t, "manyChoices", 8) {
			n += 8
		}
		for i := 0; i < n; i++ {
			o.Choices = append(o.Choices, genValidText(t, k, o.Base))
		}
	}
	val := func(label string) string {
		if len(o.Choices) > 0 {
			return rapid.SampledFrom(o.Choices).Draw(t, label)
		}
		return genValidText(t, k, o.Base)
	}
	// (a bool-kinded unmarshaler type is refused default tags by the library)
	if cfg.Defaults && k != KTri && pct(t, "hasDefault", 30) {
		n := rapid.IntRange(1, multi).Draw(t, "ndefaults")
		for i := 0; i < n; i++ {
			o.Defaults = append(o.Defaults, val("default"))
		}
	}
	if cfg.OptArg && pct(t, "optionalArg", 20) {
		o.Optional = rapid.SampledFrom([]string{"yes", "1", "true"}).Draw(t, "optVal")
		n := rapid.IntRange(1, multi).Draw(t, "noptvals")
		for i := 0; i < n; i++ {
			o.OptVals = append(o.OptVals, val("optval"))
		}
	}
	if cfg.Env && pct(t, "hasEnv", 25) {
		g.nEnv++
		o.Env = fmt.Sprintf("VPE%d", g.nEnv)
		if k.IsMulti() && pct(t, "envDelim", 60) {
			o.EnvDelim = rapid.SampledFrom([]string{",", "::", ";"}).Draw(t, "envdelim")
		}
	}
	if cfg.Initial && pct(t, "hasInitial", 50) {
		n := rapid.IntRange(1, multi+1).Draw(t, "ninitial")
		if !k.IsMulti() {
			n = 1
		}
		for i := 0; i < n; i++ {
			o.Initial = append(o.Initial, genValidText(t, k, o.Base))
		}
		// texts whose conversion is unsettled cannot serve as initial values
		if _, err := RefValue(k, o.Base, o.Initial); err != nil {
			o.Initial = nil
		}
	}
	if cfg.Unquote && pct(t, "unquoteFalse", 6) {
		o.Unquote = "false"
	}
	return o
}

func (g *declGen) group(ns *nameSets, nsPrefix string, depth int, allowEmpty bool) Group {
	t, cfg := g.t, g.cfg
	g.nGrp++
	gr := Group{Field: g.field("G"), Desc: fmt.Sprintf("Group %d", g.nGrp)}
	savedFields := g.curFields
	g.curFields = map[string]bool{}
	defer func() { g.curFields = savedFields }()
	if cfg.Desc && pct(t, "grpLong", 30) {
		gr.LongDesc = fmt.Sprintf("long description of group %d", g.nGrp)
	}
	lo := 1
	if allowEmpty {
		lo = 0
	}
	n := rapid.IntRange(lo, cfg.MaxOpts).Draw(t, "nopts")
	for i := 0; i < n; i++ {
		gr.Options = append(gr.Options, g.opt(ns, nsPrefix))
	}
	if cfg.Plain && pct(t, "hasPlain", 50) {
		np := rapid.IntRange(1, 3).Draw(t, "nplain")
		for i := 0; i < np; i++ {
			pk := rapid.SampledFrom([]string{"int", "string", "[]string", "ptr", "map", "bool"}).Draw(t, "plainKind")
			gr.Plain = append(gr.Plain, Plain{Field: g.field("P"), Kind: pk, Init: rapid.SampledFrom([]string{"", "7", "x", "a,b"}).Draw(t, "plainInit")})
			if pk == "int" && gr.Plain[len(gr.Plain)-1].Init != "7" {
				gr.Plain[len(gr.Plain)-1].Init = "42"
			}
		}
	}
	if cfg.NoFlag && pct(t, "hasNoFlag", 20) {
		kind := rapid.SampledFrom([]string{"noflag", "noflagstruct", "noflagstruct", "noflaggroup"}).Draw(t, "noFlagKind")
		gr.Plain = append(gr.Plain, Plain{Field: g.field("P"), Kind: kind, Init: fmt.Sprintf("nf%d", g.nField)})
	}
	if cfg.InCode > 0 {
		for i := range gr.Options {
			o := &gr.Options[i]
			if !pct(t, "inCode", cfg.InCode) {
				continue
			}
			var have []string
			if o.Required != "" {
				have = append(have, "required")
			}
			if len(o.Defaults) > 0 {
				have = append(have, "default")
			}
			if len(o.Choices) > 0 {
				have = append(have, "choices")
			}
			if o.Hidden != "" {
				have = append(have, "hidden")
			}
			if o.Env != "" {
				have = append(have, "env")
			}
			if o.Optional != "" {
				have = append(have, "optional")
			}
			if o.Desc != "" {
				have = append(have, "desc")
			}
			if o.ValueName != "" {
				have = append(have, "valuename")
			}
			if o.DefaultMask != "" {
				have = append(have, "mask")
			}
			for _, a := range have {
				if pct(t, "inCodeAttr", 60) {
					o.InCode = append(o.InCode, a)
				}
			}
		}
	}
	if cfg.Plain {
		for i := range gr.Options {
			o := &gr.Options[i]
			if (o.Kind == KStringSlice || o.Kind == KIntSlice || o.Kind == KFloatSlice) && len(o.Initial) > 0 && pct(t, "aliasPlain", 60) {
				gr.Plain = append(gr.Plain, Plain{Field: g.field("P"), Kind: "alias:" + string(o.Kind), Init: o.ID})
			}
		}
	}
	if cfg.ViaAdd > 0 && pct(t, "viaAdd", cfg.ViaAdd) {
		// a suffix of the options is added with AddOption (no tag-only attributes)
		for i := len(gr.Options) - 1; i >= 0; i-- {
			o := &gr.Options[i]
			if o.Base != 0 || o.Unquote != "" || o.IniName != "" || o.NoIni || len(o.InCode) > 0 || o.RawTag != nil || len(o.Initial) > 0 {
				break
			}
			o.ViaAdd = true
			o.Field = "" // (there is no struct field)
			if !pct(t, "viaAddMore", 40) {
				break
			}
		}
	}
	gr.OptsLast = pct(t, "optsLast", 30)
	// a run of options declared inside an untagged (pointer to) struct field
	nTagged := 0
	for _, o := range gr.Options {
		if !o.ViaAdd {
			nTagged++
		}
	}
	if n := nTagged; n > 0 && !cfg.NoPtr && pct(t, "inlineBlock", 12) {
		from := rapid.IntRange(0, n-1).Draw(t, "inlineFrom")
		to := rapid.IntRange(from+1, n).Draw(t, "inlineTo")
		mark := rapid.SampledFrom([]string{"s", "p", "p", "P", "e", "E"}).Draw(t, "inlineMark")
		for i := from; i < to; i++ {
			gr.Options[i].Inline = mark
		}
	}
	// two (pointer) fields of one named struct type, told apart by their namespaces
	if cfg.StaticTwins && depth == 0 && pct(t, "staticTwins", 4) {
		for i, nm := range []string{"primary", "replica"} {
			g.nGrp++
			sub := Group{Field: g.field("G"), Desc: fmt.Sprintf("Endpoint %d %s", g.nGrp, nm), Namespace: nm, Static: true,
				Ptr: rapid.SampledFrom([]string{"nil", "nil", "", "set"}).Draw(t, "staticPtr")}
			sub.Options = StaticGroupOptions(fmt.Sprintf("s%d%d", g.nGrp, i))
			for _, o := range sub.Options {
				ns.long[nsPrefix+nm+g.nsDelim+o.Long] = true
			}
			if !ns.long[nsPrefix+nm+g.nsDelim+"host"] {
				continue
			}
			gr.Groups = append(gr.Groups, sub)
		}
	}
	if depth < cfg.NestGroups && pct(t, "nested", 35) {
		nn := rapid.IntRange(1, 2).Draw(t, "nnested")
		for i := 0; i < nn; i++ {
			sub := Group{}
			subNs, subEnvNs := "", ""
			if cfg.Ns && pct(t, "hasNs", 60) {
				subNs = rapid.SampledFrom(nsPool).Draw(t, "ns")
			}
			if cfg.EnvNs && pct(t, "hasEnvNs", 50) {
				subEnvNs = rapid.SampledFrom([]string{"APP", "DB", "X_Y"}).Draw(t, "envns")
			}
			p := nsPrefix
			if subNs != "" {
				p = nsPrefix + subNs + g.nsDelim
			}
			sub = g.group(ns, p, depth+1, false)
			sub.Namespace, sub.EnvNamespace = subNs, subEnvNs
			if cfg.Hidden && pct(t, "hiddenGrp", 10) {
				sub.Hidden = true
			}
			if !cfg.NoPtr && pct(t, "ptrGroup", 15) {
				sub.Ptr = rapid.SampledFrom([]string{"nil", "nil", "set"}).Draw(t, "ptrGroupKind")
			}
			gr.Groups = append(gr.Groups, sub)
		}
	}
	return gr
}

func (g *declGen) positional() *Positional {
	t := g.t
	p := &Positional{Field: g.field("Pos")}
	n := rapid.IntRange(0, 3).Draw(t, "npos")
	if pct(t, "manyPos", 6) {
		n += rapid.IntRange(2, 5).Draw(t, "morePos")
	}
	for i := 0; i < n; i++ {
		pa := PosArg{Field: g.field("A"), Kind: rapid.SampledFrom([]Kind{KString, KString, KString, KInt, KFloat64, KUpper, KUint8, KDuration, KTri, KInt64}).Draw(t, "posKind")}
		if pct(t, "posName", 50) {
			pa.Name = fmt.Sprintf("arg%d", g.nField)
		}
		if g.cfg.Desc && pct(t, "posDesc", 50) {
			pa.Desc = fmt.Sprintf("positional %d", g.nField)
		}
		if g.cfg.PosReq && pct(t, "posFieldReq", 15) {
			pa.Req = rapid.SampledFrom([]string{"1", "yes", "2"}).Draw(t, "posReqVal")
		}
		p.Args = append(p.Args, pa)
	}
	if pct(t, "posRest", 45) || n == 0 {
		pa := PosArg{Field: g.field("R"), Kind: rapid.SampledFrom([]Kind{KStringSlice, KStringSlice, KIntSlice, KFloatSlice, KUpperSlice}).Draw(t, "restKind")}
		if pct(t, "posName", 50) {
			pa.Name = fmt.Sprintf("rest%d", g.nField)
		}
		if g.cfg.Desc && pct(t, "posDesc", 50) {
			pa.Desc = fmt.Sprintf("rest %d", g.nField)
		}
		if g.cfg.PosReq && pct(t, "restReq", 50) {
			pa.Req = rapid.SampledFrom([]string{"1", "2", "3", "0-1", "1-2", "2-3", "0-0", "yes", "1-1"}).Draw(t, "restReqVal")
		}
		p.Args = append(p.Args, pa)
		// a field declared after the slice: the slice never stops absorbing,
		// so this field is never filled (and, when required, always missing)
		if pct(t, "posAfterRest", 6) {
			pb := PosArg{Field: g.field("A"), Kind: KString, Name: fmt.Sprintf("after%d", g.nField)}
			if g.cfg.PosReq && pct(t, "posAfterRestReq", 60) {
				pb.Req = "yes"
			}
			p.Args = append(p.Args, pb)
		}
	}
	if g.cfg.PosSplit && len(p.Args) >= 2 && pct(t, "posSplit", 35) {
		p.Split = rapid.IntRange(1, len(p.Args)-1).Draw(t, "posSplitAt")
	}
	if !g.cfg.NoPtr && pct(t, "ptrPos", 15) {
		p.Ptr = rapid.SampledFrom([]string{"nil", "nil", "set"}).Draw(t, "ptrPosKind")
	}
	if g.cfg.PosReq && pct(t, "posStructReq", 35) {
		p.Required = rapid.SampledFrom([]string{"yes", "1", "true"}).Draw(t, "posStructReqVal")
	}
	return p
}

func (g *declGen) cmd(c *Cmd, depth int) {
	t, cfg := g.t, g.cfg
	ns := &nameSets{short: map[string]bool{}, long: map[string]bool{}}
	root := depth == 0
	if c.ByTag {
		c.G = g.group(ns, "", 0, true)
		c.G.Field, c.G.Desc, c.G.LongDesc = "", "", ""
	} else {
		n := rapid.IntRange(1, cfg.MaxGroups).Draw(t, "ngroups")
		for i := 0; i < n; i++ {
			gr := g.group(ns, "", 0, i == 0)
			if i == 0 && root {
				gr.Desc = "Application Options"
			}
			if cfg.EnvNs && pct(t, "topEnvNs", 30) {
				gr.EnvNamespace = rapid.SampledFrom([]string{"TOP", "T_X"}).Draw(t, "topEnvNsName")
			}
			c.G.Groups = append(c.G.Groups, gr)
		}
	}
	// options added with AddOption to the command's own group (for the root: the
	// parser's own group, addressed by the entries before any INI section header)
	if !c.ByTag && cfg.ViaAdd > 0 && pct(t, "ownGroupAdd", cfg.ViaAdd) {
		for i, n := 0, rapid.IntRange(1, 2).Draw(t, "nOwnAdd"); i < n; i++ {
			o := g.opt(ns, "")
			if o.Base != 0 || o.Unquote != "" || len(o.Initial) > 0 {
				continue
			}
			o.ViaAdd, o.Field = true, ""
			c.G.Options = append(c.G.Options, o)
		}
	}
	// namespaces of the command itself (assignable in code only); the root's
	// long-name namespace is left alone: it would rename the built-in help flag
	if cfg.Ns && !root && !cfg.NoPtr && pct(t, "cmdNs", 8) {
		c.G.Namespace = rapid.SampledFrom(nsPool).Draw(t, "cmdNsName")
	}
	if cfg.EnvNs && !cfg.NoPtr && pct(t, "cmdEnvNs", 12) {
		c.G.EnvNamespace = rapid.SampledFrom([]string{"CMD", "C_N"}).Draw(t, "cmdEnvNsName")
	}
	posPct := cfg.PosPct
	if posPct == 0 {
		posPct = 40
	}
	if cfg.Pos && pct(t, "hasPos", posPct) {
		c.Pos = g.positional()
	}
	cmdPct := cfg.CmdPct
	if cmdPct == 0 {
		cmdPct = 70
	}
	if depth < cfg.Depth && pct(t, "hasCmds", cmdPct) {
		n := rapid.IntRange(1, cfg.Fanout).Draw(t, "ncmds")
		if !g.manyCmdsUsed && depth <= 2 && pct(t, "manyCmds", 4) {
			g.manyCmdsUsed = true
			n = rapid.IntRange(9, 13).Draw(t, "manyCmdsN")
		}
		if g.nCmd > 40 {
			n = 1
		}
		used := map[string]bool{}
		for i := 0; i < n; i++ {
			g.nCmd++
			sc := Cmd{ID: fmt.Sprintf("c%d", g.nCmd), Field: g.field("C")}
			nm := rapid.SampledFrom(cmdPool).Draw(t, "cmdName")
			for j := 0; used[nm]; j++ {
				nm = fmt.Sprintf("%s%d", nm, j)
			}
			used[nm] = true
			sc.Name = nm
			if cfg.Aliases && pct(t, "hasAlias", 40) {
				na := rapid.IntRange(1, 2).Draw(t, "naliases")
				for j := 0; j < na; j++ {
					al := rapid.SampledFrom(cmdPool).Draw(t, "alias")
					for k := 0; used[al]; k++ {
						al = fmt.Sprintf("%s%d", al, k)
					}
					used[al] = true
					sc.Aliases = append(sc.Aliases, al)
				}
			}
			btp := cfg.ByTagPct
			if btp == 0 {
				btp = 50
			}
			sc.ByTag = c.ByTag || (!cfg.ProgOnly && pct(t, "byTag", btp))
			if sc.ByTag && !cfg.NoPtr && pct(t, "ptrCmd", 20) {
				sc.Ptr = rapid.SampledFrom([]string{"nil", "nil", "set"}).Draw(t, "ptrCmdKind")
			}
			if cfg.Desc && pct(t, "cmdDesc", 70) {
				sc.Desc = fmt.Sprintf("command %s", sc.ID)
			}
			if cfg.Desc && pct(t, "cmdLong", 30) {
				sc.LongDesc = fmt.Sprintf("long description of command %s", sc.ID)
			}
			if cfg.Hidden && pct(t, "hiddenCmd", 12) {
				sc.Hidden = true
			}
			sc.SubOpt = pct(t, "subOpt", cfg.SubOpt)
			g.cmd(&sc, depth+1)
			c.Cmds = append(c.Cmds, sc)
		}
		if cfg.Hidden && pct(t, "allCmdsHidden", 8) {
			for i := range c.Cmds {
				c.Cmds[i].Hidden = true
			}
		}
	}
}

// bigCfg returns a copy of cfg with larger bounds (more options per group, deeper
// group and command nesting, wider fan-out): used for a fraction of the cases so
// that size- and depth-dependent behaviour is visited too.
func bigCfg(cfg *GenCfg) *GenCfg {
	c := *cfg
	c.MaxOpts += 7
	c.MaxGroups += 2
	c.NestGroups += 2
	if c.Depth > 0 {
		c.Depth++
		c.Fanout += 3
	}
	return &c
}

func genDecl(t *rapid.T, cfg *GenCfg) *Decl {
	if !cfg.NoBig && pct(t, "bigDeclaration", 8) {
		cfg = bigCfg(cfg)
	}
	d := &Decl{Root: Cmd{ID: "root", Name: "app"}}
	for _, o := range cfg.ParserOpts {
		if rapid.Bool().Draw(t, "popt") {
			d.Opts |= uint(o)
		}
	}
	g := &declGen{t: t, cfg: cfg, nsDelim: "."}
	// the names h/help are left to the built-in group whenever HelpFlag may be set
	for _, o := range cfg.ParserOpts {
		if o == flags.HelpFlag {
			g.help = true
		}
	}
	if len(cfg.NsDelims) > 0 && pct(t, "customDelim", 40) {
		dl := rapid.SampledFrom(cfg.NsDelims).Draw(t, "nsdelim")
		d.NsDelim = &dl
		g.nsDelim = dl
	}
	if cfg.EnvNs && pct(t, "customEnvDelim", 30) {
		dl := rapid.SampledFrom([]string{"__", "", "-"}).Draw(t, "envnsdelim")
		d.EnvNsDelim = &dl
	}
	d.Root.SubOpt = pct(t, "rootSubOpt", cfg.SubOpt)
	g.cmd(&d.Root, 0)
	return d
}

// ---------------- argument vectors ----------------

type ArgvCfg struct {
	MaxItems int
	WOpt     int // option occurrence
	WCluster int
	WCmd     int
	WPlain   int
	WTerm    int
	WUnknown int
	WJunk    int
	WRepeat  int // repeat an earlier option (multi occurrences)
	BadVal   int // percent of invalid values
	Quote    int // percent of quoted spellings
	Help     int // percent of option items that are the built-in help flag
	TermPos  int // percent: emit the terminator before a level's positionals
	TypedPos int // percent of plain words typed for the pending positional (default 85)
}

type argvGen struct {
	t    *rapid.T
	d    *Decl
	cfg  *ArgvCfg
	r    *refRun
	used []*OptInfo
	out  []string
	term bool // a terminator was emitted
	// labels
	Labels map[string]int
}

func newTracker(d *Decl) *refRun {
	ho := helpOptDecl
	r := &refRun{in: &RefInput{D: d}, d: d, res: &RefResult{TokOpt: map[int][]string{}}, posEl: map[string][]interface{}{}, occ: map[string][]interface{}{},
		occN: map[string]int{}, optsOf: map[*Cmd][]*OptInfo{}}
	r.helpOpt = &OptInfo{Opt: &ho}
	r.enter(&d.Root)
	return r
}

func (g *argvGen) scopeOpts() []*OptInfo {
	seen := map[*OptInfo]bool{}
	var r []*OptInfo
	// deterministic order: walk chain declarations
	for i, c := range g.r.chain {
		for _, o := range g.r.cmdOpts(c, g.r.chain[:i+1]) {
			if seen[o] {
				continue
			}
			inScope := (o.Short != "" && g.r.sc.short[o.Short] == o) || (o.Long != "" && g.r.sc.long[o.NsLong] == o)
			if inScope {
				seen[o] = true
				r = append(r, o)
			}
		}
	}
	return r
}

func (g *argvGen) valueFor(o *OptInfo) string {
	t := g.t
	if pct(t, "badval", g.cfg.BadVal) {
		return genInvalidText(t, o.Kind, o.Base)
	}
	if len(o.Choices) > 0 && pct(t, "useChoice", 85) {
		return rapid.SampledFrom(o.Choices).Draw(t, "choice")
	}
	return genValidText(t, o.Kind, o.Base)
}

// Spelling forms of an option occurrence.
const (
	SpLongEq   = "long="
	SpLongSep  = "long "
	SpShortCat = "shortV"
	SpShortEq  = "short="
	SpShortSep = "short "
)

// spell renders an occurrence of o with value v in the given form.
func spell(o *OptInfo, form, v string) []string {
	switch form {
	case SpLongEq:
		return []string{"--" + o.NsLong + "=" + v}
	case SpLongSep:
		return []string{"--" + o.NsLong, v}
	case SpShortCat:
		return []string{"-" + o.Short + v}
	case SpShortEq:
		return []string{"-" + o.Short + "=" + v}
	case SpShortSep:
		return []string{"-" + o.Short, v}
	}
	panic("form")
}

// usableForms: forms by which o can be named in the current scope.
func (g *argvGen) usableForms(o *OptInfo) []string {
	var f []string
	if o.Long != "" && g.r.sc.long[o.NsLong] == o {
		f = append(f, SpLongEq, SpLongSep)
	}
	if o.Short != "" && g.r.sc.short[o.Short] == o {
		f = append(f, SpShortCat, SpShortEq, SpShortSep)
	}
	return f
}

func (g *argvGen) emitOpt(o *OptInfo) {
	t := g.t
	forms := g.usableForms(o)
	if len(forms) == 0 {
		return
	}
	g.used = append(g.used, o)
	if o.Kind.IsFlag() || o == g.r.helpOpt {
		if o.Long != "" && g.r.sc.long[o.NsLong] == o && (o.Short == "" || g.r.sc.short[o.Short] != o || rapid.Bool().Draw(t, "flagLong")) {
			g.out = append(g.out, "--"+o.NsLong)
		} else {
			g.out = append(g.out, "-"+o.Short)
		}
		return
	}
	if o.IsOptional() && pct(t, "noArg", 50) {
		if forms[0] == SpLongEq {
			g.out = append(g.out, "--"+o.NsLong)
		} else {
			g.out = append(g.out, "-"+o.Short)
		}
		return
	}
	form := rapid.SampledFrom(forms).Draw(t, "form")
	v := g.valueFor(o)
	if pct(t, "quoted", g.cfg.Quote) {
		v = strconv.Quote(v)
	}
	if form == SpShortCat && v == "" {
		form = SpShortEq
	}
	g.out = append(g.out, spell(o, form, v)...)
}

func (g *argvGen) emitCluster() {
	t := g.t
	var fl []*OptInfo
	var argt []*OptInfo
	var optl []*OptInfo // options with an optional argument: inside a cluster they take their optional value
	for _, o := range g.scopeOpts() {
		if o.Short == "" || g.r.sc.short[o.Short] != o {
			continue
		}
		if o.Kind.IsFlag() {
			fl = append(fl, o)
		} else if !o.IsOptional() {
			argt = append(argt, o)
		} else if len(o.OptVals) > 0 {
			optl = append(optl, o)
		}
	}
	if len(fl) == 0 {
		return
	}
	n := rapid.IntRange(2, 4).Draw(t, "clusterLen")
	s := "-"
	for i := 0; i < n; i++ {
		o := rapid.SampledFrom(fl).Draw(t, "clusterFlag")
		if i > 0 && len(optl) > 0 && pct(t, "clusterOptional", 25) {
			o = rapid.SampledFrom(optl).Draw(t, "clusterOptionalOpt")
		}
		s += o.Short
		g.used = append(g.used, o)
	}
	if g.d.Has(flags.HelpFlag) && g.cfg.Help > 0 && pct(t, "helpInCluster", 6) {
		// the built-in help flag at a random position of the cluster
		rs := []rune(s[1:])
		i := rapid.IntRange(0, len(rs)).Draw(t, "helpAt")
		g.out = append(g.out, "-"+string(rs[:i])+"h"+string(rs[i:]))
		return
	}
	if g.cfg.WUnknown > 0 && pct(t, "clusterUnknownTail", 12) {
		g.out = append(g.out, s+g.unknownShort()+rapid.SampledFrom([]string{"", "=1", "z"}).Draw(t, "clusterUnkTail"))
		return
	}
	if len(argt) > 0 && pct(t, "clusterArg", 40) {
		o := rapid.SampledFrom(argt).Draw(t, "clusterArgOpt")
		g.used = append(g.used, o)
		g.out = append(g.out, s+o.Short, g.valueFor(o))
		return
	}
	g.out = append(g.out, s)
}

func (g *argvGen) emitCmd() {
	t := g.t
	if len(g.r.ctx.Cmds) == 0 {
		return
	}
	c := &g.r.ctx.Cmds[rapid.IntRange(0, len(g.r.ctx.Cmds)-1).Draw(t, "cmdIdx")]
	w := c.Name
	if len(c.Aliases) > 0 && pct(t, "useAlias", 40) {
		w = rapid.SampledFrom(c.Aliases).Draw(t, "aliasPick")
	}
	g.out = append(g.out, w)
	if len(g.r.pending) > 0 {
		if !g.r.pending[0].Kind.IsSlice() {
			g.r.pending = g.r.pending[1:]
		}
		return
	}
	g.r.enter(c)
}

func (g *argvGen) emitPlain() {
	t := g.t
	if g.term && pct(t, "optLooking", 35) {
		w := rapid.SampledFrom([]string{"-x", "--ver", "-a=1", "--name=v", "-vv", "--"}).Draw(t, "optLookingWord")
		g.out = append(g.out, w)
		if len(g.r.pending) > 0 && !g.r.pending[0].Kind.IsSlice() {
			g.r.pending = g.r.pending[1:]
		}
		return
	}
	tp := g.cfg.TypedPos
	if tp == 0 {
		tp = 85
	}
	if len(g.r.pending) > 0 && pct(t, "typedPos", tp) {
		pa := g.r.pending[0]
		if pct(t, "badPos", g.cfg.BadVal) {
			g.out = append(g.out, genInvalidText(t, pa.Kind, 0))
		} else {
			v := genValidText(t, pa.Kind, 0)
			if (isOptSyntax(v) || v == "--") && !g.term {
				switch pa.Kind.Elem() {
				case KString, KUpper, KComp, KValid:
					v = "w" + v
				default:
					v = strings.TrimLeft(v, "-")
					if _, ver := RefOne(pa.Kind, 0, v); ver != Accept {
						v = "7"
					}
				}
			}
			g.out = append(g.out, v)
		}
		if !pa.Kind.IsSlice() {
			g.r.pending = g.r.pending[1:]
		}
		return
	}
	if w, ok := g.nearCommandWord(); ok && pct(t, "nearCmdWord", 30) {
		g.out = append(g.out, w)
		return
	}
	g.out = append(g.out, rapid.SampledFrom([]string{"word", "w2", "add", "rm", "x", "", "-", "file.txt", "é", "a b", "3", "---x", "=", "help", SelfWord}).Draw(t, "plainWord"))
}

// nearCommandWord draws a word that is close to, but (in the current context)
// not, a command name or alias: an abbreviation, a case variant, an extension,
// or the name of a command of another level.
func (g *argvGen) nearCommandWord() (string, bool) {
	var cands []string
	add := func(n string) {
		rs := []rune(n)
		if len(rs) > 1 {
			cands = append(cands, string(rs[:len(rs)-1]), string(rs[:1]), string(rs[:(len(rs)+1)/2]))
		}
		cands = append(cands, n+"x", flipCase(n), n+" ")
	}
	for i := range g.r.ctx.Cmds {
		c := &g.r.ctx.Cmds[i]
		add(c.Name)
		for _, a := range c.Aliases {
			add(a)
		}
	}
	g.d.EachCmd(func(c *Cmd, chain []*Cmd) {
		if c != &g.d.Root {
			cands = append(cands, c.Name)
			cands = append(cands, c.Aliases...)
		}
	})
	sortStrings(cands)
	var ok []string
	for _, w := range cands {
		if w != "" && g.r.childWord(w) == nil && !isOptSyntax(w) {
			ok = append(ok, w)
		}
	}
	if len(ok) == 0 {
		return "", false
	}
	return rapid.SampledFrom(ok).Draw(g.t, "nearCmd"), true
}

func flipCase(s string) string {
	for i, c := range s {
		if c >= 'a' && c <= 'z' {
			return s[:i] + strings.ToUpper(string(c)) + s[i+1:]
		}
		if c >= 'A' && c <= 'Z' {
			return s[:i] + strings.ToLower(string(c)) + s[i+1:]
		}
	}
	return s + "X"
}

// unknownName draws an option name that is NOT in scope (near misses first).
func (g *argvGen) unknownLong() string {
	t := g.t
	var cands []string
	for n := range g.r.sc.long {
		cands = append(cands, flipCase(n), n+"x", "x"+n)
		if len(n) > 1 {
			cands = append(cands, n[:len(n)-1])
		}
		if i := strings.LastIndex(n, g.d.NsD()); i > 0 && g.d.NsD() != "" {
			cands = append(cands, n[i+len(g.d.NsD()):], strings.Replace(n, g.d.NsD(), "-", 1))
		}
		if i := strings.Index(n, g.d.NsD()); i > 0 && g.d.NsD() != "" {
			cands = append(cands, n[i+len(g.d.NsD()):]) // without the outermost namespace
		}
		// "lenient" spellings: other word separators, all upper case
		cands = append(cands, strings.Replace(n, "-", "_", -1), strings.Replace(n, "_", "-", -1), strings.Replace(n, ".", "-", -1), strings.ToUpper(n), "no-"+n)
	}
	// options declared elsewhere in the tree (siblings, children)
	for _, o := range g.d.AllOpts() {
		if o.NsLong != "" {
			cands = append(cands, o.NsLong)
		}
	}
	// names that fields marked no-flag would declare
	cands = append(cands, g.d.NoFlagNames()...)
	cands = append(cands, "unknown", "zz", "no-such", "100%", "%s", "%d%%", "help?")
	sortStrings(cands)
	var ok []string
	for _, c := range cands {
		if c != "" && g.r.sc.long[c] == nil && !strings.Contains(c, "=") && c[0] != '-' {
			ok = append(ok, c)
		}
	}
	return rapid.SampledFrom(ok).Draw(t, "unkLong")
}

func (g *argvGen) unknownShort() string {
	t := g.t
	var cands []string
	for _, o := range g.d.AllOpts() {
		if o.Short != "" {
			cands = append(cands, o.Short, flipCase(o.Short))
		}
	}
	cands = append(cands, "Z", "z", "ö", "9", "?", "%", "H", "€", "日", "😀")
	sortStrings(cands)
	var ok []string
	for _, c := range cands {
		if g.r.sc.short[c] == nil && c != "-" && c != "=" {
			ok = append(ok, c)
		}
	}
	return rapid.SampledFrom(ok).Draw(t, "unkShort")
}

func (g *argvGen) emitUnknown() {
	t := g.t
	switch rapid.IntRange(0, 5).Draw(t, "unkForm") {
	case 5:
		// unknown letter followed by known flags in one cluster
		tail := ""
		for _, o := range g.scopeOpts() {
			if o.Short != "" && o.Kind.IsFlag() && g.r.sc.short[o.Short] == o && len(tail) < 8 {
				tail += o.Short
			}
		}
		g.out = append(g.out, "-"+g.unknownShort()+tail)
	case 0:
		g.out = append(g.out, "--"+g.unknownLong())
	case 1:
		g.out = append(g.out, "--"+g.unknownLong()+"="+rapid.SampledFrom([]string{"v", "", "a=b", "-x"}).Draw(t, "unkVal"))
	case 2:
		g.out = append(g.out, "-"+g.unknownShort())
	case 3:
		g.out = append(g.out, "-"+g.unknownShort()+"="+rapid.SampledFrom([]string{"v", "", "a=b"}).Draw(t, "unkVal"))
	case 4:
		g.out = append(g.out, "-"+g.unknownShort()+rapid.SampledFrom([]string{"V", "val", "é"}).Draw(t, "unkCat"))
	}
}

// item emits one random item according to the weights.
func (g *argvGen) item() {
	t, cfg, d := g.t, g.cfg, g.d
	w := []int{cfg.WOpt, cfg.WCluster, cfg.WCmd, cfg.WPlain, cfg.WTerm, cfg.WUnknown, cfg.WJunk, cfg.WRepeat}
	switch weighted(t, "item", w) {
	case 0:
		opts := g.scopeOpts()
		if d.Has(flags.HelpFlag) && pct(t, "help", cfg.Help) {
			opts = append(opts, g.r.helpOpt)
		}
		if len(opts) > 0 {
			g.emitOpt(opts[rapid.IntRange(0, len(opts)-1).Draw(t, "optIdx")])
		}
	case 1:
		g.emitCluster()
	case 2:
		g.emitCmd()
	case 3:
		g.emitPlain()
	case 4:
		g.out = append(g.out, "--")
		g.term = true
	case 5:
		g.emitUnknown()
	case 6:
		if pct(t, "junkWordOfLength", 30) {
			// a plain word of every length up to 140 (fixed-size buffers come in all sizes)
			g.out = append(g.out, strings.Repeat(rapid.SampledFrom([]string{"x", "é", "中"}).Draw(t, "junkRune"), 1+uniformInt(t, "junkLen", 140)))
			return
		}
		g.out = append(g.out, rapid.SampledFrom([]string{"", "-", "--", "---x", "-=", "--=v", "-=v", "--=", "- ", "-\xff", "--\xfe=1", strings.Repeat("A", 5000), "-" + strings.Repeat("v", 40)}).Draw(t, "junk"))
	case 7:
		if len(g.used) > 0 {
			o := g.used[rapid.IntRange(0, len(g.used)-1).Draw(t, "repeatIdx")]
			g.emitOpt(o)
		}
	}
}

func (g *argvGen) wasUsed(o *OptInfo) bool {
	for _, u := range g.used {
		if u == o {
			return true
		}
	}
	return false
}

// genArgv builds an argument vector following a plan: walk down a command
// chain; at each level emit option items, supply (most) required options and
// positionals, then the next command word; finally trailing words. Random
// items per the weights are interleaved so that invalid vectors occur too.
func genArgv(t *rapid.T, d *Decl, cfg *ArgvCfg) []string {
	g := &argvGen{t: t, d: d, cfg: cfg, r: newTracker(d)}
	for level := 0; level < 6; level++ {
		c := g.r.ctx
		maxItems := cfg.MaxItems
		if level == 0 && pct(t, "longVector", 6) {
			maxItems += 10
		}
		n := rapid.IntRange(0, maxItems).Draw(t, "nitems")
		for i := 0; i < n; i++ {
			g.item()
		}
		if g.r.ctx != c {
			continue // a random item switched command: plan the new level
		}
		// required options of this level
		for _, o := range g.r.cmdOpts(c, g.r.chain) {
			if o.IsRequired() && len(o.Defaults) == 0 && !g.wasUsed(o) && pct(t, "supplyReq", 88) {
				g.emitOpt(o)
			}
		}
		// positionals of this level
		if len(g.r.pending) > 0 && !g.term && pct(t, "termBeforePos", cfg.TermPos) {
			g.out = append(g.out, "--")
			g.term = true
		}
		for len(g.r.pending) > 0 {
			pa := g.r.pending[0]
			if pa.Kind.IsSlice() {
				min, max := posReq(pa)
				if min < 0 {
					min = 0
				}
				if max < min {
					max = min + 2
				}
				k := rapid.IntRange(min, max).Draw(t, "nrest")
				if pct(t, "restOff", 12) {
					k = rapid.IntRange(0, max+1).Draw(t, "nrestAny")
				}
				for i := 0; i < k; i++ {
					g.emitPlain()
					if pct(t, "optBetween", 20) {
						g.item()
					}
				}
				break
			}
			if !pct(t, "fillPos", 90) {
				break
			}
			g.emitPlain()
			if pct(t, "optBetween", 25) {
				g.item()
			}
		}
		if len(g.r.pending) > 0 || len(g.r.ctx.Cmds) == 0 {
			break
		}
		stopP := 8
		if g.r.ctx.SubOpt {
			stopP = 35
		}
		if pct(t, "stopHere", stopP) {
			break
		}
		g.emitCmd()
	}
	if pct(t, "manyOccurrences", 4) {
		// one multi-valued option given many times
		var multi []*OptInfo
		for _, o := range g.scopeOpts() {
			if o.Kind.IsMulti() || o.Kind == KBoolSlice || o.Kind.IsFunc() {
				multi = append(multi, o)
			}
		}
		if len(multi) > 0 {
			o := multi[rapid.IntRange(0, len(multi)-1).Draw(t, "manyOpt")]
			for i := rapid.IntRange(9, 40).Draw(t, "manyN"); i > 0; i-- {
				g.emitOpt(o)
			}
		}
	}
	if cfg.WPlain > 0 && pct(t, "manyTrailingWords", 4) {
		for i := rapid.IntRange(9, 24).Draw(t, "manyWordsN"); i > 0; i-- {
			g.emitPlain()
		}
	}
	if pct(t, "trailing", 30) {
		k := rapid.IntRange(1, 3).Draw(t, "ntrailing")
		for i := 0; i < k; i++ {
			g.item()
		}
	}
	return g.out
}

func sortStrings(s []string) {
	// insertion sort keeps this file free of extra imports and is fine for tiny lists
	for i := 1; i < len(s); i++ {
		for j := i; j > 0 && s[j] < s[j-1]; j-- {
			s[j], s[j-1] = s[j-1], s[j]
		}
	}
}

// FloatMidpointText draws a decimal lying just beside the midpoint of two
// neighbouring float32 values (where rounding once and rounding twice - first to
// 64 bits, then to 32 - differ), or of two neighbouring float64 values.
func FloatMidpointText(t *rapid.T) string {
	zeros := strings.Repeat("0", rapid.IntRange(12, 24).Draw(t, "midZeros"))
	nines := strings.Repeat("9", rapid.IntRange(12, 24).Draw(t, "midNines"))
	sign := rapid.SampledFrom([]string{"", "", "-"}).Draw(t, "midSign")
	switch rapid.IntRange(0, 3).Draw(t, "midForm") {
	case 0: // float32 spacing 1 in [2^23, 2^24): midpoints n + 0.5
		n := rapid.IntRange(1<<23, 1<<24-2).Draw(t, "midN")
		if rapid.Bool().Draw(t, "above") {
			return fmt.Sprintf("%s%d.5%s1", sign, n, zeros)
		}
		return fmt.Sprintf("%s%d.4%s", sign, n, nines)
	case 1: // float32 spacing 2 in [2^24, 2^25): midpoints are the odd integers
		n := rapid.IntRange(1<<23, 1<<24-2).Draw(t, "midN")*2 + 1
		if rapid.Bool().Draw(t, "above") {
			return fmt.Sprintf("%s%d.%s1", sign, n, zeros)
		}
		return fmt.Sprintf("%s%d.%s", sign, n-1, nines)
	case 2: // float32 near 1: spacing 2^-23, midpoint 1 + 2^-24
		if rapid.Bool().Draw(t, "above") {
			return sign + "1.000000059604644775390625" + zeros + "1"
		}
		return sign + "1.00000005960464477539062" + "4" + nines
	default: // float64 spacing 1 in [2^52, 2^53): midpoints n + 0.5
		n := rapid.Int64Range(1<<52, 1<<53-2).Draw(t, "midN64")
		if rapid.Bool().Draw(t, "above") {
			return fmt.Sprintf("%s%d.5%s1", sign, n, zeros)
		}
		return fmt.Sprintf("%s%d.4%s", sign, n, nines)
	}
}
