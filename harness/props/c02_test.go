package props

import (
	"fmt"
	"strconv"
	"strings"
	"testing"
	"unicode/utf8"

	flags "github.com/jessevdk/go-flags"
	"pgregory.net/rapid"
)

// C02: all documented spellings of an option occurrence are interchangeable.

var c02Decl = &GenCfg{Depth: 2, Fanout: 2, MaxOpts: 4, MaxGroups: 2, NestGroups: 1, Kinds: AllKinds, Pos: true, PosPct: 20, Ns: true,
	Req: 3, Choices: true, Defaults: true, OptArg: true, Initial: true, Bases: true, Unquote: true, Aliases: true, SubOpt: 50, NonASCII: true,
	NsDelims: []string{"-", "::"}, ViaAdd: 4, StaticTwins: true,
	ParserOpts: []flags.Options{flags.HelpFlag, flags.PassDoubleDash, flags.PassAfterNonOption, flags.IgnoreUnknown}}

var c02Argv = &ArgvCfg{MaxItems: 2, WOpt: 50, WCluster: 8, WCmd: 4, WPlain: 10, WTerm: 2, WUnknown: 2, WJunk: 2, WRepeat: 10, BadVal: 3, Quote: 8}

type C02Case struct {
	D    *Decl    `json:"decl"`
	Pre  []string `json:"pre"`
	Post []string `json:"post"`
	Kind string   `json:"kind"` // "spelling" | "cluster"
	// spelling
	OptID string `json:"opt,omitempty"`
	V     string `json:"v"`
	F1    string `json:"f1,omitempty"`
	Q1    bool   `json:"q1,omitempty"`
	F2    string `json:"f2,omitempty"`
	Q2    bool   `json:"q2,omitempty"`
	// cluster
	Flags  []string `json:"flags,omitempty"` // option IDs of the flags
	ArgOpt string   `json:"argopt,omitempty"`
}

var _ = Register("C02", func() interface{} { return new(C02Case) }, func(c interface{}) string { return c02Oracle(c.(*C02Case)) })

var c02Values = []string{"", " ", " lead", "trail ", "=", "=x", "a=b", "\"", "\"q\"", "-", "--", "-x", "--long", ":", "k:v", "k:", "é", "日本語", "\xff\xfe", "5", "-5", "+5", "-.5", "-0", "-Inf", "-1e3", "0x10", "1,2", "a b", "\t", "\\", "'", "--=", "-=", "k:-1", "-ff", "-1h", "-1s"}

func optByID(d *Decl, id string) *OptInfo {
	for _, o := range d.AllOpts() {
		if o.ID == id {
			return o
		}
	}
	return nil
}

// isNegativeNumberFor: V is a negative number in the sense of the option's
// type (decided by the reference conversion).
func isNegativeNumberFor(o *OptInfo, v string) bool {
	if !o.Kind.IsSignedNum() || len(v) < 2 || v[0] != '-' {
		return false
	}
	_, ver := RefOne(o.Kind, o.Base, v)
	return ver == Accept
}

// admissible reports whether form f (quoted or not) is a documented spelling of
// "option o with value v" in this parser configuration; reason on refusal.
func c02Admissible(d *Decl, o *OptInfo, v, f string, quoted bool) (bool, string) {
	if quoted && o.Unquote == "false" {
		return false, "quoted spelling with unquote:false"
	}
	text := v
	if quoted {
		text = strconv.Quote(v)
	}
	switch f {
	case SpLongEq, SpLongSep:
		if o.Long == "" {
			return false, "no long name"
		}
	default:
		if o.Short == "" {
			return false, "no short name"
		}
	}
	switch f {
	case SpLongSep, SpShortSep:
		if o.IsOptional() {
			return false, "separate form with optional argument (documented exception)"
		}
		if o.Kind.Elem() == KValid {
			// the option's type decides itself which separate tokens it takes
			if !ValidAccepts(text) {
				return false, "separate value refused by the type's own validator (documented: ValueValidator)"
			}
		} else if isOptSyntax(text) && !isNegativeNumberFor(o, text) {
			return false, "separate value with option syntax (documented exception)"
		}
		if d.Has(flags.PassDoubleDash) && text == "--" {
			return false, "separate value is the terminator"
		}
	case SpShortCat:
		if text == "" {
			return false, "-xV with empty V is the token -x"
		}
		if text[0] == '=' {
			return false, "-xV with V starting with = is the token -x=V'"
		}
	}
	return true, ""
}

func genC02(t *rapid.T) *C02Case {
	d := genDecl(t, c02Decl)
	args := genArgv(t, d, c02Argv)
	c := &C02Case{D: d}
	// choose an insertion point that does not separate an option from its argument
	ref := Ref(&RefInput{D: d, Args: args})
	var points []int
	for i := 0; i <= len(args); i++ {
		if i < len(args) && i < len(ref.Class) && ref.Class[i] == TcOptArg {
			continue
		}
		points = append(points, i)
	}
	at := rapid.SampledFrom(points).Draw(t, "at")
	c.Pre, c.Post = append([]string{}, args[:at]...), append([]string{}, args[at:]...)
	ws, ok := WalkPrefix(d, c.Pre)
	if !ok {
		// the prefix itself fails: keep the shape but insert at the front
		c.Pre, c.Post = nil, args
		ws, _ = WalkPrefix(d, nil)
	}
	// options nameable here
	var argOpts, flagOpts []*OptInfo
	seen := map[string]bool{}
	add := func(o *OptInfo) {
		if o.ID == ws.HelpOpt.ID || seen[o.ID] {
			return
		}
		seen[o.ID] = true
		if o.Kind.IsFlag() {
			if o.Short != "" && ws.Short[o.Short] != nil && ws.Short[o.Short].ID == o.ID {
				flagOpts = append(flagOpts, o)
			}
			return
		}
		// every name it has must resolve to it here
		if o.Short != "" && (ws.Short[o.Short] == nil || ws.Short[o.Short].ID != o.ID) {
			return
		}
		if o.Long != "" && (ws.Long[o.NsLong] == nil || ws.Long[o.NsLong].ID != o.ID) {
			return
		}
		argOpts = append(argOpts, o)
	}
	for i, cm := range ws.Chain {
		for _, o := range d.CmdOpts(cm, ws.Chain[:i+1]) {
			add(o)
		}
	}
	wantCluster := len(flagOpts) > 0 && rapid.IntRange(0, 3).Draw(t, "cluster") == 0
	if wantCluster || len(argOpts) == 0 {
		if len(flagOpts) == 0 {
			c.Kind = "none"
			return c
		}
		c.Kind = "cluster"
		n := rapid.IntRange(2, 4).Draw(t, "nflags")
		for i := 0; i < n; i++ {
			c.Flags = append(c.Flags, rapid.SampledFrom(flagOpts).Draw(t, "flag").ID)
		}
		var sepOpts []*OptInfo
		for _, o := range argOpts {
			if o.Short != "" && !o.IsOptional() {
				sepOpts = append(sepOpts, o)
			}
		}
		if len(sepOpts) > 0 && rapid.Bool().Draw(t, "withArg") {
			o := rapid.SampledFrom(sepOpts).Draw(t, "clusterArgOpt")
			c.ArgOpt = o.ID
			c.V = genC02Value(t, o)
		}
		return c
	}
	c.Kind = "spelling"
	o := rapid.SampledFrom(argOpts).Draw(t, "opt")
	c.OptID = o.ID
	c.V = genC02Value(t, o)
	forms := []string{SpLongEq, SpLongSep, SpShortCat, SpShortEq, SpShortSep}
	type sp struct {
		f string
		q bool
	}
	var adm []sp
	for _, f := range forms {
		for _, q := range []bool{false, true} {
			if ok, _ := c02Admissible(d, o, c.V, f, q); ok {
				adm = append(adm, sp{f, q})
			}
		}
	}
	if len(adm) < 2 {
		c.Kind = "none"
		return c
	}
	i := rapid.IntRange(0, len(adm)-1).Draw(t, "sp1")
	j := rapid.IntRange(0, len(adm)-2).Draw(t, "sp2")
	if j >= i {
		j++
	}
	c.F1, c.Q1, c.F2, c.Q2 = adm[i].f, adm[i].q, adm[j].f, adm[j].q
	return c
}

func genC02Value(t *rapid.T, o *OptInfo) string {
	switch rapid.IntRange(0, 9).Draw(t, "vclass") {
	case 0, 1, 2:
		return rapid.SampledFrom(c02Values).Draw(t, "hostile")
	case 3:
		return rapid.StringN(0, 20, 300).Draw(t, "rnd")
	case 4:
		return genInvalidText(t, o.Kind, o.Base)
	case 5:
		if len(o.Choices) > 0 {
			return rapid.SampledFrom(o.Choices).Draw(t, "choice")
		}
	}
	v := genValidText(t, o.Kind, o.Base)
	if o.Kind.IsSignedNum() && rapid.Bool().Draw(t, "negate") && !strings.HasPrefix(v, "-") && !strings.HasPrefix(v, "+") {
		v = "-" + v
	}
	return v
}

func spellText(v string, q bool) string {
	if q {
		return strconv.Quote(v)
	}
	return v
}

func c02Oracle(c *C02Case) string {
	st := S("C02")
	if c.Kind == "none" {
		st.Label("no admissible pair")
		return ""
	}
	var mid1, mid2 []string
	var desc string
	switch c.Kind {
	case "spelling":
		o := optByID(c.D, c.OptID)
		if o == nil {
			return "bad case: option not found"
		}
		for _, x := range []struct {
			f string
			q bool
		}{{c.F1, c.Q1}, {c.F2, c.Q2}} {
			if ok, why := c02Admissible(c.D, o, c.V, x.f, x.q); !ok {
				st.Exclude(why)
				return ""
			}
		}
		if c.Q1 != c.Q2 && len(c.V) > 0 && c.V[0] == '"' && o.Unquote != "false" {
			st.Exclude("raw V starting with a quote is itself a quoted spelling of another value")
			return ""
		}
		// listed finding: separate-token negative numbers not starting with a digit
		if Known("F-C02-1") {
			for _, x := range []struct {
				f string
				q bool
			}{{c.F1, c.Q1}, {c.F2, c.Q2}} {
				tx := spellText(c.V, x.q)
				if (x.f == SpLongSep || x.f == SpShortSep) && isOptSyntax(tx) && !(tx[1] >= '0' && tx[1] <= '9') {
					st.Exclude("known finding F-C02-1")
					return ""
				}
			}
		}
		mid1 = spell(o, c.F1, spellText(c.V, c.Q1))
		mid2 = spell(o, c.F2, spellText(c.V, c.Q2))
		desc = fmt.Sprintf("option %s value %q: %q(quoted=%v) vs %q(quoted=%v)", o.Display(), c.V, c.F1, c.Q1, c.F2, c.Q2)
	case "cluster":
		cl := "-"
		for _, id := range c.Flags {
			o := optByID(c.D, id)
			if o == nil {
				return "bad case: flag not found"
			}
			cl += o.Short
			mid2 = append(mid2, "-"+o.Short)
		}
		if c.ArgOpt != "" {
			o := optByID(c.D, c.ArgOpt)
			if o == nil {
				return "bad case: arg option not found"
			}
			if ok, why := c02Admissible(c.D, o, c.V, SpShortSep, false); !ok {
				st.Exclude("cluster: " + why)
				return ""
			}
			if Known("F-C02-1") && isOptSyntax(c.V) && !(c.V[1] >= '0' && c.V[1] <= '9') {
				st.Exclude("known finding F-C02-1")
				return ""
			}
			cl += o.Short
			mid1 = []string{cl, c.V}
			mid2 = append(mid2, "-"+o.Short, c.V)
		} else {
			mid1 = []string{cl}
		}
		desc = "cluster " + cl + " vs separate flags"
	}
	a1 := append(append(append([]string{}, c.Pre...), mid1...), c.Post...)
	a2 := append(append(append([]string{}, c.Pre...), mid2...), c.Post...)
	// the occurrence must be reached and parsed as an option in both vectors;
	// in a pass-through region (after --, after the first non-option under
	// PassAfterNonOption) tokens are echoed verbatim and spellings differ
	for _, a := range [][]string{a1, a2} {
		rf := Ref(&RefInput{D: c.D, Args: a})
		if rf.Undetermined != "" {
			st.Exclude("R undetermined: " + rf.Undetermined)
			return ""
		}
		if at := len(c.Pre); at >= len(rf.Class) || rf.Class[at] != TcOption {
			st.Exclude("occurrence not reached as an option (pass-through region or earlier error)")
			return ""
		}
	}
	r1 := RunReal(c.D, a1, nil, nil)
	if r1.SetupErr != nil {
		st.Label("skip: setup error")
		return ""
	}
	r2 := RunReal(c.D, a2, nil, nil)
	o1, o2 := realOutcome(c.D, r1), realOutcome(c.D, r2)
	st.Label(c.Kind)
	if c.Kind == "spelling" {
		st.Label("pair " + c.F1 + fmt.Sprint(c.Q1) + " / " + c.F2 + fmt.Sprint(c.Q2))
		o := optByID(c.D, c.OptID)
		plain := true
		for _, r := range c.V {
			if !(r >= 'a' && r <= 'z' || r >= 'A' && r <= 'Z' || r >= '0' && r <= '9') {
				plain = false
			}
		}
		sep := c.F1 == SpLongSep || c.F1 == SpShortSep || c.F2 == SpLongSep || c.F2 == SpShortSep
		nonASCII := o.Short != "" && utf8.RuneLen([]rune(o.Short)[0]) > 1
		if !plain || c.V == "" || sep || nonASCII {
			st.NonTrivial(fmt.Sprintf("%s|%v|%s|%v%v%s%s|%q", declSig(c.D), c.Pre, c.OptID, c.Q1, c.Q2, c.F1, c.F2, c.V), map[string]interface{}{"argv1": a1, "argv2": a2, "what": desc})
		}
		if nonASCII {
			st.Label("non-ASCII short name")
		}
	} else {
		st.NonTrivial(fmt.Sprintf("%s|%v|%v|%s|%q", declSig(c.D), c.Pre, c.Flags, c.ArgOpt, c.V), map[string]interface{}{"argv1": a1, "argv2": a2, "what": desc})
	}
	if strings.HasPrefix(o1, "ok") {
		st.Label("outcome: success")
	} else {
		st.Label("outcome: " + strings.SplitN(o1, ":", 2)[0])
	}
	if o1 != o2 {
		return fmt.Sprintf("%s: outcomes differ\n argv1 %q -> %s\n argv2 %q -> %s", desc, a1, o1, a2, o2)
	}
	return ""
}

func TestC02(t *testing.T) {
	S("C02").Rule = "declaration x surrounding argv (prefix/suffix from the planned generator) x one occurrence of an argument-taking option in scope x value V (hostile pool: empty, blanks, leading = \" - --, multi-byte, invalid UTF-8, signed numerals; random up to 300 bytes; valid/invalid for the type) x ordered pair of admissible spellings among {--n=V, --n V, -xV, -x=V, -x V} x {raw, Go-quoted}; and clusters -abc[x V] vs -a -b -c [-x V]. oracle (metamorphic, real parser only): identical outcome (all option values, callback log, remaining args, active chain, error type and message). Inadmissible pairs per the statement's documented exceptions are excluded by construction and counted. non-trivial: V not a plain alphanumeric word, or a separate-token form in the pair, or a non-ASCII short name, or a cluster; distinct by (declaration signature, prefix, option, forms, V)"
	runProp(t, "C02", genC02, c02Oracle)
}
