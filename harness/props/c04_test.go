package props

import (
	"bytes"
	"fmt"
	"os"
	"strings"
	"sync"
	"testing"
	"time"

	flags "github.com/jessevdk/go-flags"
	"pgregory.net/rapid"
)

// C04: parsing is total, contained and typed.

var c04Decl = &GenCfg{Depth: 3, Fanout: 2, MaxOpts: 4, MaxGroups: 2, NestGroups: 2, Kinds: AllKinds, Pos: true, PosPct: 35, PosReq: true, Ns: true,
	Req: 10, Choices: true, FlagChoice: true, CbErr: true, Env: true, EnvNs: true, Defaults: true, OptArg: true, Hidden: true, Desc: true, Initial: true, Bases: true,
	Unquote: true, Aliases: true, SubOpt: 40, NonASCII: true, NsDelims: []string{"-", "::", ""}, InCode: 10, NoFlag: true, ViaAdd: 8, StaticTwins: true,
	ParserOpts: []flags.Options{flags.HelpFlag, flags.PassDoubleDash, flags.IgnoreUnknown, flags.PrintErrors, flags.PassAfterNonOption}}

var c04Argv = &ArgvCfg{MaxItems: 3, WOpt: 30, WCluster: 10, WCmd: 5, WPlain: 10, WTerm: 4, WUnknown: 10, WJunk: 18, WRepeat: 8, BadVal: 30, Quote: 15, Help: 6}

var _ = Register("C04", func() interface{} { return new(ParseCase) }, func(c interface{}) string { return c04Oracle(c.(*ParseCase)) })

var documentedTypes = map[flags.ErrorType]bool{
	flags.ErrUnknown: true, flags.ErrExpectedArgument: true, flags.ErrUnknownFlag: true, flags.ErrUnknownGroup: true, flags.ErrMarshal: true,
	flags.ErrHelp: true, flags.ErrNoArgumentForBool: true, flags.ErrRequired: true, flags.ErrShortNameTooLong: true, flags.ErrDuplicatedFlag: true,
	flags.ErrTag: true, flags.ErrCommandRequired: true, flags.ErrUnknownCommand: true, flags.ErrInvalidChoice: true, flags.ErrInvalidTag: true,
}

// watchdog: a parse that does not return within the limit is recorded as a hang.
var (
	wdMu   sync.Mutex
	wdCase *ParseCase
	wdOnce sync.Once
	wdTick = make(chan struct{}, 1)
)

const hangLimit = 20 * time.Second

func watchdogStart() {
	go func() {
		var last *ParseCase
		var since time.Time
		for {
			time.Sleep(500 * time.Millisecond)
			wdMu.Lock()
			cur := wdCase
			wdMu.Unlock()
			if cur == nil || cur != last {
				last, since = cur, time.Now()
				continue
			}
			if time.Since(since) > hangLimit {
				RecordFail("C04", cur, fmt.Sprintf("HANG: ParseArgs did not return within %v", hangLimit))
				fmt.Println("HANG detected; exiting")
				os.Exit(1)
			}
		}
	}()
}

func c04HasTypedPositional(d *Decl) bool {
	typed := false
	d.EachCmd(func(c *Cmd, _ []*Cmd) {
		if c.Pos != nil {
			for _, a := range c.Pos.Args {
				if a.Kind.Elem() != KString {
					typed = true
				}
			}
		}
	})
	return typed
}

func c04HasFailingCallback(d *Decl) bool {
	for _, o := range d.AllOpts() {
		if o.CbErr {
			return true
		}
	}
	return false
}

func c04Oracle(c *ParseCase) string {
	st := S("C04")
	wdOnce.Do(watchdogStart)
	ref := Ref(&RefInput{D: c.D, Args: c.Args, Env: c.Env})
	var rr *RealResult
	wdMu.Lock()
	wdCase = c
	wdMu.Unlock()
	stdout, stderr, capErr := CaptureStd(func() { rr = RunReal(c.D, c.Args, c.Env, &RealCfg{ExecErr: c.execErr(), CmdHandler: c.CmdHandler}) })
	wdMu.Lock()
	wdCase = nil
	wdMu.Unlock()
	if rr.SetupErr != nil {
		st.Label("skip: setup error")
		return ""
	}
	// classification of the input
	hostile := false
	for _, a := range c.Args {
		if a == "" || a == "-" || a == "--" || strings.HasPrefix(a, "---") || strings.Contains(a, "\xff") || strings.Contains(a, "\xfe") || len(a) > 1000 || a == "-=" || strings.HasPrefix(a, "--=") || len(a) != len([]rune(a)) {
			hostile = true
		}
	}
	nOptTok := 0
	for _, cl := range ref.Class {
		if cl == TcOption {
			nOptTok++
		}
	}
	if hostile && nOptTok > 0 {
		st.NonTrivial(c.Key(), map[string]interface{}{"args": truncArgs(c.Args), "opts": c.D.Opts})
	}
	if rr.Panic != "" {
		return fmt.Sprintf("ParseArgs panicked on %q: %s", truncArgs(c.Args), rr.Panic)
	}
	// typed errors
	if rr.Err != nil {
		fe := FlagsErr(rr.Err)
		if fe != nil {
			st.Label("error: " + fe.Type.String())
			if !documentedTypes[fe.Type] {
				return fmt.Sprintf("error type %d is not a documented ErrorType", fe.Type)
			}
		} else {
			st.Label("error: foreign")
			if !c04HasTypedPositional(c.D) && rr.Err != errExecPlain && !c04HasFailingCallback(c.D) {
				return fmt.Sprintf("rejection with a non-*flags.Error error %T %q although no positional conversion, callback or handler error is possible here", rr.Err, rr.Err)
			}
		}
	} else {
		st.Label("success")
	}
	switch {
	case ref.Undetermined != "":
		st.Label("R undetermined (crash/containment/weak typing only)")
	case ref.Err != nil:
		if rr.Err == nil {
			return fmt.Sprintf("argv %q: parse succeeded, but a rejection was due: %s", truncArgs(c.Args), ref.Err)
		}
		if m := CheckErrType(rr.Err, ref.Err); m != "" {
			return fmt.Sprintf("argv %q: %s", truncArgs(c.Args), m)
		}
	default:
		executed := len(rr.B.ExecLog) > 0
		if executed && c.execErr() != nil {
			// the command's own error is what the parser returns (and prints)
			if rr.Err != c.execErr() {
				return fmt.Sprintf("argv %q: the executed command returned %v but the parser returned %v", truncArgs(c.Args), c.execErr(), rr.Err)
			}
			st.Label("command returned an error: " + c.ExecErr)
		} else if rr.Err != nil {
			return fmt.Sprintf("argv %q: rejected with %T %q although nothing is wrong with the vector (expected success, remaining %q)", truncArgs(c.Args), rr.Err, firstLine(rr.Err.Error()), ref.Rest)
		}
	}
	// containment of output
	if capErr == nil {
		wantOut, wantErr := "", ""
		if c.D.Has(flags.PrintErrors) && rr.Err != nil {
			if fe := FlagsErr(rr.Err); fe != nil && fe.Type == flags.ErrHelp {
				wantOut = rr.Err.Error() + "\n"
			} else {
				wantErr = rr.Err.Error() + "\n"
			}
			st.Label("PrintErrors with an error")
		}
		if stdout != wantOut {
			return fmt.Sprintf("argv %q (PrintErrors=%v, err=%v): standard output got %q, expected %q", truncArgs(c.Args), c.D.Has(flags.PrintErrors), errSummary(rr.Err), trunc(stdout), trunc(wantOut))
		}
		if stderr != wantErr {
			return fmt.Sprintf("argv %q (PrintErrors=%v, err=%v): standard error got %q, expected %q", truncArgs(c.Args), c.D.Has(flags.PrintErrors), errSummary(rr.Err), trunc(stderr), trunc(wantErr))
		}
	} else {
		st.Label("skip: output capture unavailable")
	}
	return ""
}

func errSummary(err error) string {
	if err == nil {
		return "<nil>"
	}
	if fe := FlagsErr(err); fe != nil {
		return fe.Type.String()
	}
	return fmt.Sprintf("%T", err)
}

func trunc(s string) string {
	if len(s) > 300 {
		return s[:300] + "…"
	}
	return s
}

func truncArgs(a []string) []string {
	r := make([]string, len(a))
	for i, s := range a {
		if len(s) > 80 {
			s = s[:80] + "…"
		}
		r[i] = s
	}
	return r
}

func TestC04(t *testing.T) {
	S("C04").Rule = "declarations (every option type, choices also on flags, positionals, commands, namespaces) x hostile structured argv (junk tokens '', '-', '--', '---x', '-=', '--=v', invalid UTF-8, 5 kB tokens, plain words of 7..257 characters around powers of two, multi-byte runes in clusters, bad values for every type, unknown options, help) x all 32 sets of {HelpFlag, PassDoubleDash, IgnoreUnknown, PrintErrors, PassAfterNonOption}; oracle: no panic, watchdog 20 s, error type as attributed by R (success expected => success), any non-flags error only where positional conversion can fail, fd-level stdout/stderr: empty without PrintErrors, exactly err+newline on the right stream with it. non-trivial: argv contains a junk/multi-byte token and at least one option token was processed; distinct by (declaration signature, argv)"
	runProp(t, "C04", func(t *rapid.T) *ParseCase {
		c := genParseCase(t, c04Decl, c04Argv)
		c.Env = genEnv(t, c.D, 25)
		c.ExecErr = []string{"", "help", "plain"}[weighted(t, "execErr", []int{6, 2, 2})]
		c.CmdHandler = rapid.IntRange(0, 3).Draw(t, "cmdHandler") == 0
		c04BoundaryTail(t, c)
		return c
	}, c04Oracle)
}

// c04BoundaryLens: word lengths (in characters) around powers of two, where
// fixed-size buffers and their fallbacks meet.
var c04BoundaryLens = []int{7, 8, 9, 15, 16, 17, 31, 32, 33, 63, 64, 65, 127, 128, 129, 255, 256, 257}

// c04BoundaryTail appends, in one case out of eight, a plain word whose
// length is one of c04BoundaryLens (single-byte or two-byte characters),
// directly or behind "--": any argument vector is in the domain of C04.
func c04BoundaryTail(t *rapid.T, c *ParseCase) {
	if !pct(t, "boundaryTail", 12) {
		return
	}
	n := c04BoundaryLens[uniformInt(t, "boundaryLen", len(c04BoundaryLens))]
	unit := []string{"x", "\u00e9"}[uniformInt(t, "boundaryUnit", 2)]
	if pct(t, "boundaryDash", 60) {
		c.Args = append(c.Args, "--")
	}
	c.Args = append(c.Args, strings.Repeat(unit, n))
	S("C04").Label("boundary-length word appended")
}

// ---- native fuzzing: arbitrary bytes as argv against fixed rich declarations ----

var (
	fuzzDeclOnce sync.Once
	fuzzDecls    []*Decl
)

func fixedDecls() []*Decl {
	fuzzDeclOnce.Do(func() {
		g := rapid.Custom(func(t *rapid.T) *Decl { return genDecl(t, c04Decl) })
		for seed := 1; len(fuzzDecls) < 12 && seed < 200; seed++ {
			d := g.Example(seed)
			n := len(d.AllOpts())
			if n >= 5 && Build(d).Err == nil {
				d.Opts = 0
				fuzzDecls = append(fuzzDecls, d)
			}
		}
	})
	return fuzzDecls
}

func FuzzParse(f *testing.F) {
	seeds := [][]byte{
		[]byte("-v\x00--verbose\x00add\x00-x=1"), []byte("--\x00-x"), []byte("-\x00\x00--=\x00-="), []byte("--ver=\"q\"\x00-abc"),
		[]byte("-\xc3\xa9=v\x00-\xff"), []byte("--help"), []byte("-h"), []byte("add\x00rm\x00--name\x00--"), []byte("---x\x00--a.b"),
		[]byte("-n\x00-5\x00-n\x00-.5"), []byte("--opt\x00--opt=\x00--opt=="), []byte("-vvv\x00-v=1"), []byte("\x00\x00\x00"),
	}
	for i, s := range seeds {
		f.Add(uint8(i), uint8(i*7), s)
	}
	decls := fixedDecls()
	f.Fuzz(func(t *testing.T, di uint8, ob uint8, raw []byte) {
		d0 := decls[int(di)%len(decls)]
		d := *d0
		d.Opts = uint(ob&31) << 1 // HelpFlag(2) PassDoubleDash(4) IgnoreUnknown(8) PrintErrors(16) PassAfterNonOption(32)
		var args []string
		if len(raw) > 0 {
			for _, p := range bytes.Split(raw, []byte{0}) {
				args = append(args, string(p))
			}
		}
		if len(args) > 24 {
			args = args[:24]
		}
		c := &ParseCase{D: &d, Args: args}
		S("C04").Eval()
		if msg := c04Oracle(c); msg != "" {
			RecordFail("C04", c, msg)
			t.Fatal(msg)
		}
	})
}
