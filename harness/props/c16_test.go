package props

import (
	"bytes"
	"fmt"
	"regexp"
	"strings"
	"testing"

	flags "github.com/jessevdk/go-flags"
	"pgregory.net/rapid"
)

// C16: help and man page show exactly the visible interface.

type C16Case struct {
	D     *Decl    `json:"decl"`
	Chain []string `json:"chain"` // command IDs of the active chain
	// Given: IDs of string options of the parser's own groups that are given a
	// value ("given"+ID) on the command line before --help: what the user
	// typed is not a default and must not show up in the help
	Given []string `json:"given,omitempty"`
	// NoHelpFlag: the parser has no built-in help option; the program parses the
	// command words and then calls WriteHelp itself
	NoHelpFlag bool `json:"no_help_flag,omitempty"`
}

var _ = Register("C16", func() interface{} { return new(C16Case) }, func(c interface{}) string { return c16Oracle(c.(*C16Case)) })

type c16Gen struct {
	t *rapid.T
	n int
}

func (g *c16Gen) mk() string {
	g.n++
	return fmt.Sprintf("q%04dz", g.n)
}

func (g *c16Gen) opt(shorts map[string]bool, forceHidden bool) Opt {
	t := g.t
	g.n++
	o := Opt{ID: fmt.Sprintf("o%d", g.n), Field: fmt.Sprintf("F%d", g.n)}
	o.Kind = rapid.SampledFrom([]Kind{KString, KInt, KBool, KStringSlice, KMapSS, KFloat64, KBoolSlice, KFuncS, KDuration, KUint8}).Draw(t, "kind")
	hasLong := rapid.IntRange(0, 9).Draw(t, "hasLong") < 8
	if !hasLong || rapid.Bool().Draw(t, "hasShort") {
		pool := []string{"a", "b", "c", "d", "e", "f", "g", "i", "j", "k", "l", "m", "n", "o", "p", "r", "s", "t", "u", "v", "w", "x", "y", "é", "λ"}
		s := rapid.SampledFrom(pool).Draw(t, "short")
		if !shorts[s] {
			shorts[s] = true
			o.Short = s
		}
	}
	if hasLong || o.Short == "" {
		o.Long = "lg" + g.mk()
	}
	if rapid.IntRange(0, 9).Draw(t, "hasDesc") < 7 {
		o.Desc = "desc" + g.mk()
		if rapid.IntRange(0, 7).Draw(t, "percentInDesc") == 0 {
			o.Desc += rapid.SampledFrom([]string{" 100% sure", " %d of %s", " more than this % of the quota"}).Draw(t, "percentText")
		}
	}
	if !o.Kind.IsFlag() {
		if rapid.Bool().Draw(t, "hasVN") {
			o.ValueName = "VN" + g.mk()
		}
		if o.Kind == KString && rapid.IntRange(0, 3).Draw(t, "hasChoices") == 0 {
			for i := rapid.IntRange(1, 3).Draw(t, "nch"); i > 0; i-- {
				o.Choices = append(o.Choices, "ch"+g.mk())
			}
		}
		if rapid.Bool().Draw(t, "hasDefault") {
			nd := 1
			if o.Kind.IsMulti() {
				nd = rapid.IntRange(1, 2).Draw(t, "ndef")
			}
			for i := 0; i < nd; i++ {
				switch {
				case len(o.Choices) > 0:
					o.Defaults = append(o.Defaults, o.Choices[0])
				case o.Kind == KInt:
					g.n++
					o.Defaults = append(o.Defaults, fmt.Sprintf("77%04d77", g.n))
				case o.Kind == KDuration:
					g.n++
					o.Defaults = append(o.Defaults, fmt.Sprintf("%dh7m", 1000+g.n))
				case o.Kind == KUint8:
					o.Defaults = append(o.Defaults, "213")
				case o.Kind == KFloat64:
					g.n++
					o.Defaults = append(o.Defaults, fmt.Sprintf("55%04d.25", g.n))
				case o.Kind.IsMap():
					o.Defaults = append(o.Defaults, "k"+g.mk()+":v"+g.mk())
				case o.Kind == KString && rapid.IntRange(0, 11).Draw(t, "dashDefault") == 0:
					o.Defaults = append(o.Defaults, "-") // (the usual "standard input/output" default)
				default:
					o.Defaults = append(o.Defaults, "df"+g.mk())
				}
			}
			if len(o.Choices) == 0 && rapid.IntRange(0, 9).Draw(t, "mask") < 4 {
				o.DefaultMask = rapid.SampledFrom([]string{"-", "MASK", "MASK", "0", "no", "false"}).Draw(t, "maskKind")
				if o.DefaultMask == "MASK" {
					o.DefaultMask = "mask" + g.mk()
				}
			}
		}
	}
	if rapid.IntRange(0, 9).Draw(t, "hasEnv") < 3 {
		o.Env = "ENV" + g.mk()
	}
	if forceHidden || rapid.IntRange(0, 9).Draw(t, "hidden") < 2 {
		o.Hidden = "yes"
	}
	if rapid.IntRange(0, 9).Draw(t, "required") == 0 {
		o.Required = "yes"
	}
	return o
}

func (g *c16Gen) group(desc string, shorts map[string]bool, depth int, hidden bool, minOpts int) Group {
	t := g.t
	g.n++
	gr := Group{Field: fmt.Sprintf("G%d", g.n), Desc: desc, Hidden: hidden}
	for i := rapid.IntRange(minOpts, 3).Draw(t, "nopts"); i > 0; i-- {
		gr.Options = append(gr.Options, g.opt(shorts, false))
	}
	if depth < 2 && rapid.IntRange(0, 9).Draw(t, "nested") < 4 {
		sub := g.group("grp"+g.mk(), shorts, depth+1, hidden || rapid.IntRange(0, 4).Draw(t, "hiddenGrp") == 0, 1)
		if rapid.Bool().Draw(t, "ns") {
			sub.Namespace = "ns" + g.mk()
		}
		if rapid.Bool().Draw(t, "envns") {
			sub.EnvNamespace = "EN" + g.mk()
		}
		gr.Groups = append(gr.Groups, sub)
	}
	return gr
}

func (g *c16Gen) cmd(c *Cmd, depth int) {
	t := g.t
	shorts := map[string]bool{"h": true}
	if c.ByTag {
		c.G = g.group("", shorts, 0, false, 0)
		c.G.Field = ""
	} else {
		name := "grp" + g.mk()
		if depth == 0 {
			name = "Application Options"
		}
		c.G.Groups = append(c.G.Groups, g.group(name, shorts, 0, false, 0))
		if rapid.Bool().Draw(t, "second") {
			c.G.Groups = append(c.G.Groups, g.group("grp"+g.mk(), shorts, 0, rapid.IntRange(0, 4).Draw(t, "hiddenTop") == 0, 1))
		}
	}
	// namespaces assigned in code to the command itself (not to the root's long
	// names: that would rename the built-in help flag used to request the help)
	if depth > 0 && rapid.IntRange(0, 3).Draw(t, "cmdNs") == 0 {
		c.G.Namespace = "cn" + g.mk()
	}
	if rapid.IntRange(0, 3).Draw(t, "cmdEnvNs") == 0 {
		c.G.EnvNamespace = "CE" + g.mk()
	}
	if depth < 2 && rapid.IntRange(0, 9).Draw(t, "hasCmds") < 7 {
		ncmds := rapid.IntRange(1, 3).Draw(t, "ncmds")
		if rapid.IntRange(0, 4).Draw(t, "manyCmds") == 0 {
			ncmds = rapid.IntRange(4, 9).Draw(t, "manyCmdsN")
		}
		for i := ncmds; i > 0; i-- {
			g.n++
			sc := Cmd{ID: fmt.Sprintf("c%d", g.n), Field: fmt.Sprintf("C%d", g.n), Name: "cmd" + g.mk() + rapid.SampledFrom([]string{"", "", "é", "éß", "größe", "日本"}).Draw(t, "cmdSuffix"), ByTag: c.ByTag || rapid.Bool().Draw(t, "byTag")}
			if rapid.IntRange(0, 9).Draw(t, "cmdDesc") < 7 {
				sc.Desc = "cdesc" + g.mk()
			}
			if rapid.IntRange(0, 9).Draw(t, "cmdLong") < 3 {
				sc.LongDesc = "clong" + g.mk()
			}
			for j := rapid.IntRange(0, 2).Draw(t, "naliases"); j > 0; j-- {
				sc.Aliases = append(sc.Aliases, "al"+g.mk())
			}
			sc.Hidden = rapid.IntRange(0, 3).Draw(t, "hiddenCmd") == 0
			sc.SubOpt = true
			g.cmd(&sc, depth+1)
			c.Cmds = append(c.Cmds, sc)
		}
	}
	if len(c.Cmds) == 0 && depth > 0 && rapid.IntRange(0, 9).Draw(t, "hasPos") < 4 {
		g.n++
		p := &Positional{Field: fmt.Sprintf("Pos%d", g.n)}
		for i := rapid.IntRange(1, 3).Draw(t, "npos"); i > 0; i-- {
			g.n++
			pa := PosArg{Field: fmt.Sprintf("A%d", g.n), Kind: KString, Name: "pn" + g.mk()}
			if rapid.Bool().Draw(t, "posDesc") {
				pa.Desc = "pdesc" + g.mk()
			}
			p.Args = append(p.Args, pa)
		}
		c.Pos = p
	}
}

func genC16(t *rapid.T) *C16Case {
	g := &c16Gen{t: t}
	d := &Decl{Opts: uint(flags.HelpFlag | flags.PassDoubleDash), Root: Cmd{ID: "root", Name: "app", SubOpt: true}}
	if rapid.Bool().Draw(t, "nsdelim") {
		dl := rapid.SampledFrom([]string{"-", "::", "."}).Draw(t, "delim")
		d.NsDelim = &dl
	}
	if rapid.Bool().Draw(t, "envdelim") {
		dl := rapid.SampledFrom([]string{"__", "_"}).Draw(t, "edelim")
		d.EnvNsDelim = &dl
	}
	g.cmd(&d.Root, 0)
	c := &C16Case{D: d, NoHelpFlag: rapid.IntRange(0, 3).Draw(t, "noHelpFlag") == 0}
	for _, o := range d.AllOpts() {
		if len(o.Chain) == 1 && o.Kind == KString && o.Long != "" && len(o.Choices) == 0 && rapid.IntRange(0, 5).Draw(t, "given") == 0 {
			c.Given = append(c.Given, o.ID)
		}
	}
	cur := &d.Root
	for len(cur.Cmds) > 0 && rapid.IntRange(0, 9).Draw(t, "descend") < 7 {
		cur = &cur.Cmds[rapid.IntRange(0, len(cur.Cmds)-1).Draw(t, "pick")]
		c.Chain = append(c.Chain, cur.ID)
	}
	return c
}

// c16RowCheck verifies that a help row carries every part of option o.
func c16RowCheck(o *OptInfo, row string) string {
	if o.Long != "" && o.Short != "" && !strings.Contains(row, "-"+o.Short+", --"+o.NsLong) {
		return fmt.Sprintf("help row %q does not show the short name -%s beside --%s", row, o.Short, o.NsLong)
	}
	if !o.Kind.IsFlag() {
		want := "="
		if o.ValueName != "" {
			want += o.ValueName
		}
		if len(o.Choices) > 0 {
			want += "[" + strings.Join(o.Choices, "|") + "]"
		}
		if !strings.Contains(row, want) {
			return fmt.Sprintf("help row %q lacks value name/choices %q of option %s", row, want, o.ID)
		}
	}
	if o.Desc != "" {
		if !strings.Contains(row, o.Desc) {
			return fmt.Sprintf("help row %q lacks the description %q", row, o.Desc)
		}
		switch {
		case o.DefaultMask == "-":
			if strings.Contains(row, "(default:") {
				return fmt.Sprintf("help row %q shows a default although default-mask is \"-\"", row)
			}
		case o.DefaultMask != "":
			if !strings.Contains(row, "(default: "+o.DefaultMask+")") {
				return fmt.Sprintf("help row %q lacks the default mask %q", row, o.DefaultMask)
			}
		case len(o.Defaults) > 0:
			if !strings.Contains(row, "(default: "+strings.Join(o.Defaults, ", ")+")") {
				return fmt.Sprintf("help row %q lacks the default %q", row, o.Defaults)
			}
		}
		if o.EnvKey != "" && !strings.Contains(row, "[$"+o.EnvKey+"]") {
			return fmt.Sprintf("help row %q lacks the environment variable [$%s]", row, o.EnvKey)
		}
	}
	return ""
}

type c16Vis struct {
	visibleOpts   []*OptInfo // along the chain (help) or whole tree (man)
	hiddenMarkers []string
	secret        []string // masked default values
}

func optMarkers(o *OptInfo) []string {
	var m []string
	if o.Long != "" {
		m = append(m, o.Long)
	}
	for _, s := range []string{o.Desc, o.ValueName, o.DefaultMask, o.Env} {
		if s != "" && s != "-" {
			m = append(m, s)
		}
	}
	m = append(m, o.Choices...)
	return m
}

var markerRe = regexp.MustCompile(`q[0-9]{4}z`)

func onlyMarkers(ss []string) []string {
	var r []string
	for _, s := range ss {
		if markerRe.MatchString(s) {
			r = append(r, s)
		}
	}
	return r
}

func c16Oracle(c *C16Case) string {
	st := S("C16")
	if !SetTermWidth(400) {
		st.Label("skip: no pseudo-terminal (help would wrap)")
		return ""
	}
	d := c.D
	// resolve chain
	chainSet := map[string]bool{"root": true}
	var chainCmds []*Cmd
	chainCmds = append(chainCmds, &d.Root)
	cur := &d.Root
	var words []string
	throughHidden := false
	for _, id := range c.Chain {
		var next *Cmd
		for i := range cur.Cmds {
			if cur.Cmds[i].ID == id {
				next = &cur.Cmds[i]
			}
		}
		if next == nil {
			return "bad case: chain"
		}
		chainSet[id] = true
		chainCmds = append(chainCmds, next)
		words = append(words, next.Name)
		if next.Hidden {
			throughHidden = true
		}
		cur = next
	}
	innermost := cur
	if c.NoHelpFlag {
		d2 := *d
		d2.Opts &^= uint(flags.HelpFlag)
		d = &d2
	}
	b := Build(d)
	if b.Err != nil {
		st.Label("skip: setup error")
		return ""
	}
	var err error
	var given []string
	for _, o := range d.AllOpts() {
		for _, id := range c.Given {
			if id == o.ID && len(o.Chain) == 1 && o.Long != "" {
				given = append(given, "--"+o.NsLong+"=given"+o.ID+"value")
			}
		}
	}
	if len(given) > 0 {
		st.Label("options given on the command line before --help")
	}
	help := ""
	if c.NoHelpFlag {
		// the program selects the commands by parsing and writes the help itself
		// (whether that parse succeeds does not matter: required items may be missing)
		var hb bytes.Buffer
		if pm := Safely(func() {
			b.P.ParseArgs(append(given, words...))
			b.P.WriteHelp(&hb)
		}); pm != "" {
			return fmt.Sprintf("help for chain %q could not be generated (panic), the visible interface is not shown: %s", words, pm)
		}
		if got := b.ActiveChain(); strings.Join(got, "\x00") != strings.Join(words, "\x00") {
			st.Label("skip: the command chain was not selected")
			return ""
		}
		st.Label("help written by WriteHelp on a parser without the help flag")
		help = hb.String()
	} else {
		if pm := Safely(func() { _, err = b.P.ParseArgs(append(append(given, words...), "--help")) }); pm != "" {
			// no help at all: nothing of the visible interface is shown
			return fmt.Sprintf("help for chain %q could not be generated (panic), the visible interface is not shown: %s", words, pm)
		}
		fe := FlagsErr(err)
		if fe == nil || fe.Type != flags.ErrHelp {
			st.Label("skip: --help did not produce ErrHelp")
			return ""
		}
		help = fe.Message
	}
	var manBuf bytes.Buffer
	if pm := Safely(func() { Build(d).P.WriteManPage(&manBuf) }); pm != "" {
		return "WriteManPage panicked: " + pm
	}
	man := manBuf.String()
	lines := strings.Split(help, "\n")

	// classify the declaration
	var hiddenMarkers, secrets []string
	nHidden, nVisibleDeep, nMask := 0, 0, 0
	type vo struct {
		o      *OptInfo
		inHelp bool
	}
	var vis []vo
	d.EachCmd(func(cm *Cmd, chain []*Cmd) {
		cmdHidden := false
		for _, x := range chain {
			if x.Hidden {
				cmdHidden = true
			}
		}
		if cm.Hidden {
			hiddenMarkers = append(hiddenMarkers, onlyMarkers([]string{cm.Name, cm.Desc, cm.LongDesc})...)
			hiddenMarkers = append(hiddenMarkers, onlyMarkers(cm.Aliases)...)
		}
		cm.G.EachGroup(func(g *Group, _ []*Group) {
			if g.Hidden {
				hiddenMarkers = append(hiddenMarkers, onlyMarkers([]string{g.Desc})...)
			}
		})
		if cm.Pos != nil && cmdHidden {
			for _, pa := range cm.Pos.Args {
				hiddenMarkers = append(hiddenMarkers, onlyMarkers([]string{pa.Name, pa.Desc})...)
			}
		}
		for _, o := range d.CmdOpts(cm, chain) {
			ownHidden := o.Groups[len(o.Groups)-1].Hidden
			if o.DefaultMask != "" {
				nMask++
				for _, dv := range o.Defaults {
					secrets = append(secrets, onlyMarkers([]string{dv})...)
					if o.Kind == KInt || o.Kind == KFloat64 {
						secrets = append(secrets, dv)
					}
				}
			}
			if o.IsHidden() || ownHidden || cmdHidden {
				nHidden++
				hiddenMarkers = append(hiddenMarkers, onlyMarkers(optMarkers(o))...)
				for _, dv := range o.Defaults {
					if len(o.Choices) == 0 {
						hiddenMarkers = append(hiddenMarkers, onlyMarkers([]string{dv})...)
					}
				}
				continue
			}
			if len(chain) > 1 || len(o.Groups) > 1 {
				nVisibleDeep++
			}
			vis = append(vis, vo{o, chainSet[cm.ID] && len(chain) <= len(chainCmds) && chain[len(chain)-1] == chainCmds[len(chain)-1]})
		}
	})
	// (0) what was typed on this command line is not a default
	for _, gv := range given {
		if v := gv[strings.Index(gv, "=")+1:]; strings.Contains(help, v) {
			return fmt.Sprintf("help shows %q, the value given to an option on this very command line, %q\n%s", v, gv, trunc(help))
		}
	}
	// (1) nothing hidden, no masked default - anywhere in help or man page
	for _, m := range hiddenMarkers {
		if strings.Contains(help, m) && !throughHidden {
			return fmt.Sprintf("help for chain %q shows %q which belongs to a hidden option, group or command\n%s", words, m, trunc(help))
		}
		if strings.Contains(man, m) {
			return fmt.Sprintf("man page shows %q which belongs to a hidden option, group or command\n%s", m, trunc(man))
		}
	}
	for _, s := range secrets {
		if strings.Contains(help, s) {
			return fmt.Sprintf("help shows the masked default value %q\n%s", s, trunc(help))
		}
		if strings.Contains(man, s) {
			return fmt.Sprintf("man page shows the masked default value %q\n%s", s, trunc(man))
		}
	}
	// (1b) an attribute of one option is never shown for another: every
	// option-level marker (description, value name, default, mask, env key)
	// occurs at most once in the help and at most once in the man page
	for _, v := range vis {
		o := v.o
		ms := onlyMarkers([]string{o.Desc, o.ValueName, o.DefaultMask, o.Env})
		if len(o.Choices) == 0 {
			ms = append(ms, onlyMarkers(o.Defaults)...)
		}
		for _, m := range ms {
			if n := strings.Count(help, m); n > 1 {
				return fmt.Sprintf("help for chain %q shows %q, an attribute of option %s only, %d times\n%s", words, m, o.ID, n, trunc(help))
			}
			if n := strings.Count(man, m); n > 1 {
				return fmt.Sprintf("man page shows %q, an attribute of option %s only, %d times\n%s", m, o.ID, n, trunc(man))
			}
		}
	}
	// (2) every visible option along the chain has its row in the help
	if !throughHidden {
		for _, v := range vis {
			if !v.inHelp {
				continue
			}
			o := v.o
			var cands []string
			if o.Long != "" {
				needle := "--" + o.NsLong
				for _, l := range lines {
					if i := strings.Index(l, needle); i >= 0 {
						rest := l[i+len(needle):]
						if rest == "" || rest[0] == '=' || rest[0] == ' ' {
							cands = append(cands, l)
						}
					}
				}
				if len(cands) == 0 {
					return fmt.Sprintf("help for chain %q has no row for visible option %s (--%s)\n%s", words, o.ID, o.NsLong, trunc(help))
				}
			} else {
				// short-only: other levels of the chain may use the same letter,
				// so every matching row is a candidate
				re := regexp.MustCompile(`^\s+-` + regexp.QuoteMeta(o.Short) + `(=|\s|$)`)
				for _, l := range lines {
					if re.MatchString(l) {
						cands = append(cands, l)
					}
				}
				if len(cands) == 0 {
					return fmt.Sprintf("help for chain %q has no row for visible short-only option -%s (%s)\n%s", words, o.Short, o.ID, trunc(help))
				}
			}
			firstErr := ""
			okRow := false
			for _, row := range cands {
				if m := c16RowCheck(o, row); m == "" {
					okRow = true
					break
				} else if firstErr == "" {
					firstErr = m
				}
			}
			if !okRow {
				return firstErr + "\n" + trunc(help)
			}
		}
		// positionals of the chain
		for _, cm := range chainCmds {
			if cm.Pos == nil {
				continue
			}
			for _, pa := range cm.Pos.Args {
				if pa.Desc == "" {
					continue
				}
				found := false
				for _, l := range lines {
					if strings.Contains(l, pa.Name+":") && strings.Contains(l, pa.Desc) {
						found = true
					}
				}
				if !found {
					return fmt.Sprintf("help lacks the row of described positional argument %s\n%s", pa.Name, trunc(help))
				}
			}
		}
		// sub-commands of the innermost command
		for i := range innermost.Cmds {
			sc := &innermost.Cmds[i]
			if sc.Hidden {
				continue
			}
			found := ""
			inList := false
			for _, l := range lines {
				if strings.HasPrefix(l, "Available commands:") {
					inList = true
					continue
				}
				if inList && strings.HasPrefix(l, "  "+sc.Name) {
					found = l
				}
			}
			if found == "" {
				return fmt.Sprintf("help does not list visible sub-command %s under Available commands\n%s", sc.Name, trunc(help))
			}
			if sc.Desc != "" {
				if !strings.Contains(found, sc.Desc) {
					return fmt.Sprintf("command row %q lacks the description %q", found, sc.Desc)
				}
				if len(sc.Aliases) > 0 && !strings.Contains(found, "(aliases: "+strings.Join(sc.Aliases, ", ")+")") {
					return fmt.Sprintf("command row %q lacks the aliases %q", found, sc.Aliases)
				}
			}
		}
	}
	// (3) man page: every visible option and command of the whole tree
	for _, v := range vis {
		o := v.o
		if o.Long != "" && !strings.Contains(man, `\-\-`+o.NsLong) {
			return fmt.Sprintf("man page lacks visible option --%s (%s)\n%s", o.NsLong, o.ID, trunc(man))
		}
		if o.Long == "" && !strings.Contains(man, `\fB\-`+o.Short+`\fR`) {
			return fmt.Sprintf("man page lacks visible short-only option -%s (%s)", o.Short, o.ID)
		}
		if o.ValueName != "" && !strings.Contains(man, o.ValueName) {
			return fmt.Sprintf("man page lacks the value name %q of option %s", o.ValueName, o.ID)
		}
		if o.Desc != "" && !strings.Contains(man, o.Desc) {
			return fmt.Sprintf("man page lacks the description %q of option %s", o.Desc, o.ID)
		}
	}
	d.EachCmd(func(cm *Cmd, chain []*Cmd) {
		if cm == &d.Root || err != nil && false {
			return
		}
		for _, x := range chain {
			if x.Hidden {
				return
			}
		}
		if !strings.Contains(man, cm.Name) {
			hiddenMarkers = append(hiddenMarkers, "\x00missing:"+cm.Name)
		}
		for _, a := range cm.Aliases {
			if !strings.Contains(man, a) {
				hiddenMarkers = append(hiddenMarkers, "\x00missing:"+a)
			}
		}
	})
	for _, m := range hiddenMarkers {
		if strings.HasPrefix(m, "\x00missing:") {
			return fmt.Sprintf("man page lacks visible command name or alias %q\n%s", m[9:], trunc(man))
		}
	}
	if nHidden > 0 && nVisibleDeep > 0 {
		st.Label("hidden and visible items at depth >= 1")
	}
	if nMask > 0 {
		st.Label("default mask")
	}
	if throughHidden {
		st.Label("chain through a hidden command (leak checks on man page only)")
	}
	if (nHidden > 0 && nVisibleDeep > 0) || nMask > 0 {
		st.NonTrivial(declSig(d)+strings.Join(words, "/")+fmt.Sprint(len(hiddenMarkers), nMask), map[string]interface{}{"chain": words, "help": trunc(help)})
	}
	return ""
}

func TestC16(t *testing.T) {
	S("C16").Rule = "declarations in which every string attribute (long names, descriptions, value names, each choice, each default, masks, env keys, namespaces and env-namespaces, group descriptions, command names, aliases, positional names/descriptions) is a unique marker word, with hidden marks on options, groups and commands at any depth, default masks ('-' included), env keys under nested env-namespaces with custom delimiters, namespaces and env-namespaces assigned in code to commands (1-3, sometimes 4-9 sub-commands per level) x every selectable active chain (chosen by parsing the command words + --help, so the ErrHelp message is the text checked); oracle: every visible option/positional/sub-command row is present with all its parts, no marker of a hidden item and no masked default value occurs in help or man page, no option-level marker occurs twice, man page lists every visible option and command of the whole tree. non-trivial: hidden and visible items below the top level, or a default mask; distinct by (declaration signature, chain)"
	runProp(t, "C16", genC16, c16Oracle)
}
