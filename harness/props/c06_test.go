package props

import (
	"fmt"
	"sort"
	"strings"
	"testing"

	flags "github.com/jessevdk/go-flags"
	"pgregory.net/rapid"
)

// C06: required options and argument counts are enforced.

var c06Decl = &GenCfg{Depth: 3, Fanout: 2, MaxOpts: 3, MaxGroups: 2, NestGroups: 2, Kinds: []Kind{KBool, KString, KInt, KStringSlice, KBoolSlice, KMapSS, KFuncS, KFunc0, KFloat64, KIntPtr, KTri, KUpper, KToggle},
	Pos: true, PosPct: 55, PosReq: true, Ns: true, Req: 40, OptArg: true, Aliases: true, SubOpt: 35, NonASCII: true, Defaults: true, Env: true, EnvNs: true, Hidden: true, InCode: 25, ViaAdd: 5, FlagChoice: true, StaticTwins: true,
	ParserOpts: []flags.Options{flags.HelpFlag, flags.PassDoubleDash, flags.PassAfterNonOption, flags.IgnoreUnknown}}

var c06Argv = &ArgvCfg{MaxItems: 2, WOpt: 55, WCluster: 14, WCmd: 4, WPlain: 10, WTerm: 5, WUnknown: 0, WJunk: 0, WRepeat: 10, BadVal: 0, Quote: 4}

var _ = Register("C06", func() interface{} { return new(ParseCase) }, func(c interface{}) string { return c06Oracle(c.(*ParseCase)) })

func genC06(t *rapid.T) *ParseCase {
	c := genParseCase(t, c06Decl, c06Argv)
	// a required option without short or long name (it has an ini-name only, so
	// only the INI file, the environment or a default can supply it)
	if len(c.D.Root.G.Groups) > 0 && rapid.IntRange(0, 14).Draw(t, "namelessRequired") == 0 {
		o := Opt{ID: "nameless", Field: "Nameless", Kind: KString, IniName: "nameless-token", Required: "yes"}
		if rapid.Bool().Draw(t, "namelessDefault") {
			o.Defaults = []string{"d"}
		}
		g0 := &c.D.Root.G.Groups[0]
		g0.Options = append(g0.Options, o)
		// (keep options added with AddOption last in their group)
		for i := len(g0.Options) - 1; i > 0 && g0.Options[i-1].ViaAdd; i-- {
			g0.Options[i-1], g0.Options[i] = g0.Options[i], g0.Options[i-1]
		}
	}
	// supply some options through the environment
	c.Env = genEnv(t, c.D, 0)
	// ... and some through an INI file read before the command line
	if rapid.IntRange(0, 2).Draw(t, "withIni") == 0 {
		for _, o := range c.D.AllOpts() {
			if !o.IsRequired() || o.Kind.IsFunc() || o.NoIni || rapid.IntRange(0, 2).Draw(t, "iniSupply") != 0 {
				continue
			}
			sects := iniSectionsFor(c.D, o)
			raw := ""
			if !o.Kind.IsFlag() {
				v := ""
				if len(o.Choices) > 0 {
					v = o.Choices[0]
				} else {
					v = genValidText(t, o.Kind, o.Base)
				}
				raw = iniValueFor(o, v, false)
			}
			l := IniLine{Section: sects[0], Key: iniKeyOf(o), Value: raw}
			if r := RefIni(c.D, []IniLine{l}); r.ErrKind == "" && r.Opts[o.ID] != nil {
				c.Ini = append(c.Ini, l)
			}
		}
		sort.SliceStable(c.Ini, func(i, j int) bool { return c.Ini[i].Section < c.Ini[j].Section })
	}
	return c
}

func c06Oracle(c *ParseCase) string {
	st := S("C06")
	var pre map[string][]interface{}
	iniText := ""
	if len(c.Ini) > 0 {
		ir := RefIni(c.D, c.Ini)
		if ir.ErrKind != "" {
			st.Label("skip: ini not accepted by R")
			return ""
		}
		pre = ir.Touched
		iniText, _ = RenderIni(c.Ini)
		st.Label("required option supplied through INI")
	}
	ref := Ref(&RefInput{D: c.D, Args: c.Args, Env: c.Env, PreSet: pre})
	if ref.Undetermined != "" {
		st.Label("skip: " + ref.Undetermined)
		return ""
	}
	rr := RunReal(c.D, c.Args, c.Env, &RealCfg{CmdHandler: c.CmdHandler, Ini: iniText})
	if rr.IniErr != nil {
		st.Label("skip: ini rejected")
		return ""
	}
	if rr.Panic != "" || rr.SetupErr != nil {
		st.Label("skip: panic or setup error")
		return ""
	}
	refReq := ref.Err != nil && len(ref.Err.Types) == 1 && ref.Err.Types[0] == flags.ErrRequired
	fe := FlagsErr(rr.Err)
	realReq := fe != nil && fe.Type == flags.ErrRequired
	// count required marks per tree level for the non-trivial rule
	levels := map[int]bool{}
	nreq := 0
	for _, o := range c.D.AllOpts() {
		if o.IsRequired() {
			nreq++
			levels[len(o.Chain)*10+len(o.Groups)] = true
		}
	}
	switch {
	case refReq:
		if len(ref.Err.Missing) > 0 && strings.HasPrefix(ref.Err.Why, "required options") {
			st.Label("required options missing")
		} else {
			st.Label("positional constraint unmet")
		}
		if rr.Err == nil {
			return fmt.Sprintf("parse succeeded although required items are missing: %q", ref.Err.Missing)
		}
		if !realReq {
			return fmt.Sprintf("expected ErrRequired naming %q, got %T: %v", ref.Err.Missing, rr.Err, firstLine(rr.Err.Error()))
		}
		got := requiredNames(fe.Message)
		want := append([]string(nil), ref.Err.Missing...)
		sort.Strings(got)
		sort.Strings(want)
		if !strSliceEq(got, want) {
			return fmt.Sprintf("ErrRequired names %q, expected exactly %q (message %q)", got, want, fe.Message)
		}
		if len(rr.B.ExecLog) != 0 || len(rr.CmdHand) != 0 {
			return fmt.Sprintf("ErrRequired returned but something was executed: %v %v", rr.B.ExecLog, rr.CmdHand)
		}
		partial := false
		for _, o := range c.D.AllOpts() {
			if o.IsRequired() && ref.Occ[o.ID] > 0 {
				partial = true
			}
		}
		if (len(levels) >= 2 && partial) || !strings.HasPrefix(ref.Err.Why, "required options") {
			st.NonTrivial(c.Key(), map[string]interface{}{"args": c.Args, "missing": ref.Err.Missing, "env": c.Env})
		}
	case realReq:
		// R: nothing required is missing at this point (either success or a
		// different error that precedes the check)
		if ref.Err == nil {
			return fmt.Sprintf("ErrRequired (%s) although every required option of the active chain was supplied and positional constraints are met", fe.Message)
		}
		st.Label("skip: both fail, different cause")
	case ref.Err == nil && rr.Err == nil:
		st.Label("success")
		if nreq >= 2 && len(levels) >= 2 {
			st.NonTrivial(c.Key(), map[string]interface{}{"args": c.Args, "env": c.Env, "outcome": "all supplied"})
		}
	default:
		st.Label("skip: other error")
	}
	return ""
}

func TestC06(t *testing.T) {
	S("C06").Rule = "command trees (depth <= 3) with required marks (~40% of options) on root groups, nested groups, commands and inactive siblings, positional layouts with struct-level required and per-field N / N-M constraints x planned argv supplying random subsets by every spelling and clusters, plus env/default supply; oracle: R missing-set vs names parsed from the ErrRequired message (exact set), nothing executed, unselected commands never demanded. non-trivial: required marks on >= 2 tree levels and a partial supply, or a positional constraint verdict; distinct by (declaration signature, argv)"
	runProp(t, "C06", func(t *rapid.T) *ParseCase {
		c := genC06(t)
		c.CmdHandler = rapid.Bool().Draw(t, "cmdhandler")
		return c
	}, c06Oracle)
}

// genEnv sets the environment variable of about a third of the options that have
// one; badPct percent of the values are invalid for the option (wrong type or
// not among the choices).
func genEnv(t *rapid.T, d *Decl, badPct int) map[string]string {
	env := map[string]string{}
	for _, o := range d.AllOpts() {
		if o.EnvKey == "" || o.Kind.IsFunc() || rapid.IntRange(0, 2).Draw(t, "envSet") != 0 {
			continue
		}
		switch {
		case pct(t, "envBad", badPct):
			if len(o.Choices) > 0 {
				env[o.EnvKey] = envSafe(o.Choices[0] + "-nochoice")
			} else if o.Kind.IsFlag() {
				env[o.EnvKey] = "maybe"
			} else {
				env[o.EnvKey] = envSafe(genInvalidText(t, o.Kind, o.Base))
			}
		case o.Kind.IsFlag():
			env[o.EnvKey] = rapid.SampledFrom([]string{"", "true", "1"}).Draw(t, "envFlagVal")
		case len(o.Choices) > 0:
			env[o.EnvKey] = envSafe(o.Choices[0])
		default:
			env[o.EnvKey] = envSafe(genValidText(t, o.Kind, o.Base))
		}
	}
	return env
}
