package props

// Evidence counters, failure recording, property registry and known-findings
// handling shared by all property checks.

import (
	"encoding/json"
	"fmt"
	"hash/fnv"
	"os"
	"path/filepath"
	"runtime"
	"runtime/debug"
	"sort"
	"sync"
)

type Stats struct {
	mu       sync.Mutex
	Prop     string
	Rule     string
	Evals    int64
	nt       map[uint64]struct{}
	Labels   map[string]int64
	Excluded map[string]int64
	Samples  []interface{}
	failed   bool
	// MemSkipped: generated cases that were not evaluated because this
	// process had used up its memory budget (runtime-created struct types are
	// never freed)
	MemSkipped int64
}

var (
	statsMu  sync.Mutex
	allStats = map[string]*Stats{}
)

func S(prop string) *Stats {
	statsMu.Lock()
	defer statsMu.Unlock()
	s := allStats[prop]
	if s == nil {
		s = &Stats{Prop: prop, nt: map[uint64]struct{}{}, Labels: map[string]int64{}, Excluded: map[string]int64{}}
		allStats[prop] = s
	}
	return s
}

func hash64(s string) uint64 {
	h := fnv.New64a()
	h.Write([]byte(s))
	return h.Sum64()
}

func (s *Stats) Eval() {
	s.mu.Lock()
	if !s.failed {
		s.Evals++
	}
	s.mu.Unlock()
}

// NonTrivial counts a case as non-trivial; key is the canonical encoding used
// for distinctness. sample is kept for the first few.
func (s *Stats) NonTrivial(key string, sample interface{}) {
	s.mu.Lock()
	defer s.mu.Unlock()
	if s.failed {
		return
	}
	h := hash64(key)
	if _, ok := s.nt[h]; ok {
		return
	}
	s.nt[h] = struct{}{}
	if len(s.Samples) < 6 && sample != nil {
		s.Samples = append(s.Samples, sample)
	}
}

func (s *Stats) Label(l string) {
	s.mu.Lock()
	if !s.failed {
		s.Labels[l]++
	}
	s.mu.Unlock()
}

func (s *Stats) Exclude(reason string) {
	s.mu.Lock()
	if !s.failed {
		s.Excluded[reason]++
	}
	s.mu.Unlock()
}

var (
	memCheckN   int64
	memExceeded bool
)

// MemBudgetExhausted reports (checking every 32 calls) whether this process
// holds more memory than VERIF_MEMLIMIT_MB (default 1800). Once true it stays
// true: what is held are runtime-created types, which are never released.
func MemBudgetExhausted() bool {
	if memExceeded {
		return true
	}
	memCheckN++
	if memCheckN%32 != 0 {
		return false
	}
	limit := uint64(1800)
	if v := os.Getenv("VERIF_MEMLIMIT_MB"); v != "" {
		var n uint64
		if _, err := fmt.Sscan(v, &n); err == nil && n > 0 {
			limit = n
		}
	}
	var ms runtime.MemStats
	runtime.ReadMemStats(&ms)
	// (HeapAlloc: live objects plus garbage not yet collected; the runtime keeps
	// it below about twice the live size)
	if ms.HeapAlloc > limit<<20 {
		memExceeded = true
	}
	return memExceeded
}

func (s *Stats) MemSkip() {
	s.mu.Lock()
	s.MemSkipped++
	s.mu.Unlock()
}

func (s *Stats) markFailed() {
	s.mu.Lock()
	s.failed = true
	s.mu.Unlock()
}

type statsDump struct {
	Prop     string           `json:"prop"`
	Rule     string           `json:"rule"`
	Evals    int64            `json:"evals"`
	NT       []string         `json:"nt"`
	Labels   map[string]int64 `json:"labels"`
	Excluded map[string]int64 `json:"excluded"`
	Samples  []interface{}    `json:"samples"`
	MemSkip  int64            `json:"memskipped"`
}

func DumpStats(path string) error {
	statsMu.Lock()
	defer statsMu.Unlock()
	out := []statsDump{}
	for _, s := range allStats {
		d := statsDump{Prop: s.Prop, Rule: s.Rule, Evals: s.Evals, Labels: s.Labels, Excluded: s.Excluded, Samples: s.Samples, MemSkip: s.MemSkipped}
		for h := range s.nt {
			d.NT = append(d.NT, fmt.Sprintf("%016x", h))
		}
		sort.Strings(d.NT)
		out = append(out, d)
	}
	sort.Slice(out, func(i, j int) bool { return out[i].Prop < out[j].Prop })
	b, err := json.Marshal(out)
	if err != nil {
		return err
	}
	return os.WriteFile(path, b, 0o644)
}

// ---- registry / replay ----

type PropDef struct {
	New    func() interface{}
	Oracle func(c interface{}) string
}

var registry = map[string]PropDef{}

func Register(id string, newCase func() interface{}, oracle func(interface{}) string) bool {
	registry[id] = PropDef{New: newCase, Oracle: oracle}
	return true
}

type FailFile struct {
	Property string          `json:"property"`
	Message  string          `json:"message"`
	Case     json.RawMessage `json:"case"`
}

// RecordFail writes the failing case (overwriting earlier ones: rapid re-runs
// the minimal example last, so the file finally holds the shrunk case).
func RecordFail(prop string, c interface{}, msg string) {
	S(prop).markFailed()
	dir := os.Getenv("VERIF_FAILDIR")
	if dir == "" {
		return
	}
	cb, err := json.Marshal(c)
	if err != nil {
		cb, _ = json.Marshal(fmt.Sprintf("unserialisable case: %v", err))
	}
	b, _ := json.MarshalIndent(FailFile{Property: prop, Message: msg, Case: cb}, "", " ")
	os.MkdirAll(dir, 0o755)
	// atomically: the process may be stopped (hang guard, driver timeout) while
	// rapid is still shrinking and re-recording
	tmp := filepath.Join(dir, prop+".json.tmp")
	if os.WriteFile(tmp, b, 0o644) == nil {
		os.Rename(tmp, filepath.Join(dir, prop+".json"))
	}
}

// Replay runs the oracle of the recorded property on the recorded case.
func Replay(path string) (prop string, msg string, err error) {
	b, err := os.ReadFile(path)
	if err != nil {
		return "", "", err
	}
	var ff FailFile
	if err := json.Unmarshal(b, &ff); err != nil {
		return "", "", err
	}
	def, ok := registry[ff.Property]
	if !ok {
		return ff.Property, "", fmt.Errorf("no such property %q", ff.Property)
	}
	c := def.New()
	if err := json.Unmarshal(ff.Case, c); err != nil {
		return ff.Property, "", err
	}
	return ff.Property, def.Oracle(c), nil
}

// ---- known findings ----

type KnownFinding struct {
	Property string          `json:"property"`
	ID       string          `json:"id"`
	Status   string          `json:"status"` // "known" | "fixed"
	What     string          `json:"what"`
	Commit   string          `json:"commit,omitempty"`
	Example  json.RawMessage `json:"example,omitempty"`
}

var (
	knownActive    = map[string]bool{} // finding id -> its example still fails
	knownBypass    bool                // evaluate oracles without exclusions
	knownBypassOne string
)

// Known reports whether the listed finding is active (its committed example
// still fails on the tree under test), i.e. whether its class is excluded.
func Known(id string) bool {
	if knownBypass {
		return false
	}
	return knownActive[id]
}

// LoadKnown evaluates every "known" entry of prop; entries whose example still
// fails become active and are reported as KNOWN-FINDING lines.
func LoadKnown(path, prop string) []string {
	b, err := os.ReadFile(path)
	if err != nil {
		return nil
	}
	var list []KnownFinding
	if err := json.Unmarshal(b, &list); err != nil {
		fmt.Fprintf(os.Stderr, "known findings file unreadable: %v\n", err)
		return nil
	}
	var lines []string
	for _, k := range list {
		if k.Status != "known" || k.Property != prop {
			continue
		}
		def, ok := registry[k.Property]
		if !ok || len(k.Example) == 0 {
			continue
		}
		c := def.New()
		if err := json.Unmarshal(k.Example, c); err != nil {
			fmt.Fprintf(os.Stderr, "known finding %s: bad example: %v\n", k.ID, err)
			continue
		}
		knownBypass = true
		msg := def.Oracle(c)
		knownBypass = false
		if msg != "" {
			knownActive[k.ID] = true
			lines = append(lines, fmt.Sprintf("KNOWN-FINDING: property=%s %s: %s", k.Property, k.ID, k.What))
		}
	}
	return lines
}

// Safely runs f and converts a panic into a message.
func Safely(f func()) (panicMsg string) {
	defer func() {
		if r := recover(); r != nil {
			panicMsg = fmt.Sprintf("panic: %v\n%s", r, debug.Stack())
		}
	}()
	f()
	return ""
}
