package props

import (
	"bytes"
	"crypto/sha1"
	"fmt"
	"os"
	"reflect"
	"strings"
	"testing"

	flags "github.com/jessevdk/go-flags"
	"pgregory.net/rapid"
)

// C15: outcomes are deterministic (nothing depends on map iteration order).

type C15Case struct {
	D        *Decl    `json:"decl"`
	Args     []string `json:"args"`
	Ini      string   `json:"ini"`
	CompArgs []string `json:"comp_args"`
	Reps     int      `json:"reps"`
	// ColonKeys: IDs of pre-populated string-keyed map options whose keys get
	// the prefix "host:" once the parser is built (keys such as host:8080 can
	// only be stored by the program itself: every textual source splits an
	// entry at its first colon)
	ColonKeys []string `json:"colon_keys,omitempty"`
	// IniAsDefaults: the INI text is read with ParseAsDefaults set
	IniAsDefaults bool `json:"ini_as_defaults,omitempty"`
}

// c15Build builds the parser of the scenario and applies ColonKeys.
func c15Build(c *C15Case) *Built {
	b := Build(c.D)
	if b.Err != nil {
		return b
	}
	for _, id := range c.ColonKeys {
		f, ok := b.OptVal[id]
		if !ok || f.Kind() != reflect.Map || f.Type().Key().Kind() != reflect.String || f.Len() == 0 {
			continue
		}
		nm := reflect.MakeMap(f.Type())
		it := f.MapRange()
		for it.Next() {
			nm.SetMapIndex(reflect.ValueOf("host:"+it.Key().String()).Convert(f.Type().Key()), it.Value())
		}
		f.Set(nm)
	}
	return b
}

var _ = Register("C15", func() interface{} { return new(C15Case) }, func(c interface{}) string { return c15Oracle(c.(*C15Case)) })

var c15Decl = &GenCfg{Depth: 2, Fanout: 3, MaxOpts: 4, MaxGroups: 2, NestGroups: 1, Kinds: []Kind{KMapSS, KMapSI, KMapIS, KMapFS, KString, KInt, KStringSlice, KBool, KFuncS, KInt8},
	Ns: true, Req: 30, Choices: true, Defaults: true, Hidden: true, Desc: true, Bases: false, Aliases: true, SubOpt: 30, CmdPct: 80, Env: true, ViaAdd: 5, InCode: 8,
	ParserOpts: []flags.Options{flags.HelpFlag, flags.PassDoubleDash, flags.IgnoreUnknown}}

var c15Argv = &ArgvCfg{MaxItems: 3, WOpt: 50, WCluster: 4, WCmd: 4, WPlain: 4, WTerm: 1, WUnknown: 3, WJunk: 1, WRepeat: 30, BadVal: 3, Quote: 3, Help: 3}

func genC15(t *rapid.T) *C15Case {
	d := genDecl(t, c15Decl)
	// pre-populate maps with several entries and give every map a description
	// (its contents are then rendered as the default in help)
	d.EachCmd(func(c *Cmd, _ []*Cmd) {
		c.G.EachGroup(func(g *Group, _ []*Group) {
			for i := range g.Options {
				o := &g.Options[i]
				if !o.Kind.IsMap() || len(o.Choices) > 0 {
					continue
				}
				o.Desc = "map option " + o.ID
				if len(o.Defaults) == 0 && rapid.IntRange(0, 3).Draw(t, "prepopulate") > 0 {
					n := rapid.IntRange(2, 6).Draw(t, "nentries")
					if rapid.IntRange(0, 5).Draw(t, "bigMap") == 0 {
						n = rapid.IntRange(9, 14).Draw(t, "bigMapN")
					}
					o.Initial = nil
					numericLooking := rapid.IntRange(0, 2).Draw(t, "numericKeys") == 0
					for j := 0; j < n; j++ {
						kk, vk := o.Kind.MapKV()
						k := fmt.Sprintf("k%d", j)
						if numericLooking {
							// distinct string keys that denote the same or neighbouring numbers
							k = []string{"7", "07", "+7", "007", "3", "12", "intro"}[j%7] + strings.Repeat("0", j/7)
						}
						if kk == KInt {
							k = fmt.Sprint(j * 7)
						}
						if kk == KFloat64 {
							k = fmt.Sprintf("%d.5", j*3)
						}
						v := fmt.Sprintf("v%d", j)
						if vk == KInt {
							v = fmt.Sprint(j)
						}
						o.Initial = append(o.Initial, k+":"+v)
					}
				}
			}
		})
	})
	// several distinct duplicated option names in one declaration: which one the
	// ErrDuplicatedFlag message names must not depend on chance
	if len(d.Root.G.Groups) > 0 && rapid.IntRange(0, 24).Draw(t, "duplicatedNames") == 0 {
		g0 := &d.Root.G.Groups[0]
		for i, n := range []string{"dupa", "dupb", "dupc", "dupa", "dupc", "dupb"} {
			g0.Options = append(g0.Options, Opt{ID: fmt.Sprintf("dup%d", i), Field: fmt.Sprintf("Dup%d", i), Kind: KString, Long: n})
		}
	}
	c := &C15Case{D: d, Reps: 40, IniAsDefaults: rapid.IntRange(0, 2).Draw(t, "iniAsDefaults") == 0}
	for _, o := range d.AllOpts() {
		if (o.Kind == KMapSS || o.Kind == KMapSI) && len(o.Initial) >= 2 && rapid.IntRange(0, 3).Draw(t, "colonKeys") == 0 {
			c.ColonKeys = append(c.ColonKeys, o.ID)
		}
	}
	// families of similar command names so that a typo can be equally close to several
	if rapid.IntRange(0, 2).Draw(t, "similarNames") == 0 {
		fam := rapid.SampledFrom([][]string{{"pull", "push", "purl"}, {"start", "stark", "stare"}, {"list", "lint", "lisp"}}).Draw(t, "family")
		asAliases := rapid.Bool().Draw(t, "familyAsAliases")
		d.EachCmd(func(cm *Cmd, _ []*Cmd) {
			if len(cm.Cmds) >= 2 && len(cm.Cmds) <= 3 {
				if asAliases {
					// the similar words are aliases; the names proper are far away
					cm.Cmds[0].Aliases = []string{fam[0], fam[1]}
					cm.Cmds[1].Aliases = []string{fam[2]}
					return
				}
				for i := range cm.Cmds {
					cm.Cmds[i].Name = fam[i]
					cm.Cmds[i].Aliases = nil
				}
			}
		})
	}
	// long names of the parser's own options that differ in case only, and a
	// third spelling on the command line (a lenient lookup has to choose)
	caseVariant := ""
	if rapid.IntRange(0, 7).Draw(t, "caseVariants") == 0 {
		var top []*Opt
		taken := map[string]bool{}
		for _, o := range d.AllOpts() {
			taken[o.NsLong] = true
			if len(o.Chain) == 1 && len(o.Groups) == 2 && o.Groups[1].Namespace == "" && o.Long != "" && !o.ViaAdd && strings.ToLower(o.Long) == o.Long && strings.ToUpper(o.Long) != o.Long {
				top = append(top, o.Opt)
			}
		}
		if len(top) >= 2 {
			base := top[0].Long
			variant := strings.ToUpper(base[:1]) + base[1:]
			if !taken[variant] && !taken[strings.ToUpper(base)] {
				top[1].Long = variant
				caseVariant = "--" + strings.ToUpper(base)
			}
		}
	}
	c.Args = genArgv(t, d, c15Argv)
	if caseVariant != "" {
		c.Args = append([]string{caseVariant}, c.Args...)
	}
	if rapid.IntRange(0, 1).Draw(t, "nearMissCmd") == 0 {
		// an unknown command word close to several command names (ties in the suggestion)
		cur := &d.Root
		var words []string
		for len(cur.Cmds) > 0 && cur.Pos == nil {
			if len(cur.Cmds) >= 2 && !cur.SubOpt && rapid.Bool().Draw(t, "stopForTypo") {
				var words0 []string
				for _, sc := range cur.Cmds {
					words0 = append(append(words0, sc.Name), sc.Aliases...)
				}
				nm := []rune(rapid.SampledFrom(words0).Draw(t, "typoOf"))
				i := rapid.IntRange(0, len(nm)-1).Draw(t, "typoAt")
				nm[i] = rapid.SampledFrom([]rune("abdlmrstzhknp")).Draw(t, "typoRune")
				// a word known to be equally close to two or three of the similar
				// names, when such a family is in use
				ties := map[string]string{"pull": "puxl", "start": "starx", "list": "lixt"}
				for _, w0 := range words0 {
					if tw, ok := ties[w0]; ok && rapid.Bool().Draw(t, "tieWord") {
						nm = []rune(tw)
					}
				}
				words = append(words, string(nm))
				c.Args = words
				break
			}
			cur = &cur.Cmds[rapid.IntRange(0, len(cur.Cmds)-1).Draw(t, "descend")]
			words = append(words, cur.Name)
		}
	}
	// INI text: same options from several sections, plus up to two faults
	lines := genIniLines(t, d, 8, true)
	lines = append(lines, genIniLines(t, d, 4, true)...)
	text, _ := RenderIni(lines)
	nf := rapid.IntRange(0, 2).Draw(t, "nfaults")
	for i := 0; i < nf; i++ {
		text += rapid.SampledFrom([]string{"[No Such Section]\nx = 1\n", "[Application Options]\nnosuchkey = 1\n", "[Other Missing]\ny = 2\n", "nosuchkey2 = 5\n"}).Draw(t, "fault")
	}
	// two entries of different options with unconvertible values (which one is reported?)
	if rapid.IntRange(0, 3).Draw(t, "badIniValues") == 0 {
		nb := 0
		for _, o := range d.AllOpts() {
			if (o.Kind == KInt || o.Kind == KInt8 || o.Kind == KMapSI) && len(o.Chain) == 1 && o.IniName == "" && nb < 3 {
				text += fmt.Sprintf("[%s]\n%s = notanumber\n", o.Groups[len(o.Groups)-1].Desc, iniKeyOf(o))
				nb++
			}
		}
	}
	c.Ini = text
	// completion request
	ws, ok := WalkPrefix(d, nil)
	_ = ws
	if ok {
		c.CompArgs = []string{rapid.SampledFrom([]string{"--", "-", "", "--v", "a", "--a"}).Draw(t, "partial")}
		if len(d.Root.Cmds) > 0 && rapid.Bool().Draw(t, "compCmd") {
			c.CompArgs = append([]string{d.Root.Cmds[0].Name}, c.CompArgs...)
		}
	}
	return c
}

// c15Eval evaluates the scenario once on fresh builds and returns its outputs.
func c15Eval(c *C15Case) (parts map[string]string, pm string) {
	defer guardCall("C15 scenario evaluation")()
	parts = map[string]string{}
	pm = Safely(func() {
		// help + man + ini output on a freshly built parser (after defaults)
		b := c15Build(c)
		if b.Err != nil {
			parts["setup"] = b.Err.Error()
			return
		}
		var buf bytes.Buffer
		b.P.WriteHelp(&buf)
		parts["help"] = buf.String()
		buf.Reset()
		b.P.WriteManPage(&buf)
		parts["man"] = buf.String()
		// parse
		b2 := c15Build(c)
		rest, err := b2.P.ParseArgs(append([]string{}, c.Args...))
		if err != nil {
			if fe := FlagsErr(err); fe != nil {
				parts["parse-error"] = fmt.Sprintf("%v: %s", fe.Type, fe.Message)
			} else {
				parts["parse-error"] = err.Error()
			}
		} else {
			parts["parse-rest"] = strings.Join(rest, "\x00")
		}
		parts["values"] = iniFields(b2)
		buf.Reset()
		flags.NewIniParser(b2.P).Write(&buf, flags.IniIncludeDefaults|flags.IniIncludeComments)
		parts["ini-output"] = buf.String()
		buf.Reset()
		b2.P.WriteHelp(&buf)
		parts["help-after-parse"] = buf.String()
		// ini input
		b3 := c15Build(c)
		ip3 := flags.NewIniParser(b3.P)
		ip3.ParseAsDefaults = c.IniAsDefaults
		if err := ip3.Parse(strings.NewReader(c.Ini)); err != nil {
			parts["ini-error"] = err.Error()
		}
		parts["ini-values"] = iniFields(b3)
		// completion
		if c.CompArgs != nil {
			b4 := c15Build(c)
			b4.P.CompletionHandler = func(items []flags.Completion) {
				var sb strings.Builder
				for _, it := range items {
					sb.WriteString(it.Item + "\t" + it.Description + "\n")
				}
				parts["completion"] = sb.String()
			}
			os.Setenv("GO_FLAGS_COMPLETION", "1")
			defer os.Unsetenv("GO_FLAGS_COMPLETION")
			b4.P.ParseArgs(append([]string{}, c.CompArgs...))
		}
	})
	return parts, pm
}

func c15Oracle(c *C15Case) string {
	st := S("C15")
	os.Setenv("SOURCE_DATE_EPOCH", "0")
	SetTermWidth(100)
	reps := c.Reps
	if reps <= 0 {
		reps = 40
	}
	first, pm := c15Eval(c)
	if pm != "" {
		st.Label("skip: panic (C04/C17)")
		return ""
	}
	if _, bad := first["setup"]; bad {
		// the declaration is rejected: the error message is an output too
		st.Label("declaration rejected at setup (message compared)")
	}
	for i := 1; i < reps; i++ {
		w0, e0 := TermWidth()
		cur, pm := c15Eval(c)
		w1, e1 := TermWidth()
		if pm != "" {
			return "evaluation " + fmt.Sprint(i) + " panicked although the first did not: " + pm
		}
		for k, v := range first {
			if cur[k] != v {
				if ptyOK && (w0 != 100 || w1 != 100) {
					// the environment changed under the evaluation: no verdict
					st.Exclude(fmt.Sprintf("terminal width of fd 0 was not stable around an evaluation (%d %v / %d %v)", w0, e0, w1, e1))
					return ""
				}
				return fmt.Sprintf("[terminal width before/after: %d %v / %d %v] ", w0, e0, w1, e1) + fmt.Sprintf("output %q differs between evaluation 1 and %d of the same scenario:\n--- 1 ---\n%s\n--- %d ---\n%s", k, i+1, trunc(diffContext(v, cur[k], true)), i+1, trunc(diffContext(v, cur[k], false)))
			}
		}
		if len(cur) != len(first) {
			return fmt.Sprintf("set of outputs differs between evaluations: %d vs %d", len(first), len(cur))
		}
	}
	// classification
	mapsInHelp, multiSection, faults := 0, false, 0
	for _, o := range c.D.AllOpts() {
		if o.Kind.IsMap() && len(o.Initial) >= 2 && len(o.Chain) == 1 && !o.IsHidden() && !o.HiddenG {
			mapsInHelp++
		}
	}
	if strings.Count(c.Ini, "[") >= 2 {
		multiSection = true
	}
	faults = strings.Count(c.Ini, "nosuchkey") + strings.Count(c.Ini, "No Such Section") + strings.Count(c.Ini, "Other Missing")
	if mapsInHelp > 0 {
		st.Label("map with >= 2 entries rendered in help")
	}
	if multiSection {
		st.Label("ini input with several sections")
	}
	if faults >= 2 {
		st.Label("two simultaneous ini faults")
	}
	if strings.Contains(first["parse-error"], "did you mean") {
		st.Label("did-you-mean suggestion")
	}
	if strings.Contains(first["parse-error"], "required") {
		st.Label("required-list error")
	}
	if first["completion"] != "" && strings.Count(first["completion"], "\n") >= 2 {
		st.Label("completion list with >= 2 items")
	}
	if mapsInHelp > 0 || multiSection || faults >= 2 {
		h := sha1.Sum([]byte(first["help"] + first["ini-values"] + first["parse-error"] + first["values"]))
		st.NonTrivial(fmt.Sprintf("%x", h), map[string]interface{}{"args": c.Args, "ini": trunc(c.Ini), "comp": c.CompArgs, "maps_in_help": mapsInHelp})
	}
	if dp := os.Getenv("VERIF_C15_DIGEST"); dp != "" {
		var sb strings.Builder
		for _, k := range []string{"help", "man", "parse-error", "parse-rest", "values", "ini-output", "help-after-parse", "ini-error", "ini-values", "completion"} {
			sb.WriteString(k + "=" + first[k] + "\x01")
		}
		f, err := os.OpenFile(dp, os.O_APPEND|os.O_CREATE|os.O_WRONLY, 0o644)
		if err == nil {
			fmt.Fprintf(f, "%x %x\n", sha1.Sum([]byte(declSig(c.D)+strings.Join(c.Args, "\x00")+c.Ini)), sha1.Sum([]byte(sb.String())))
			f.Close()
		}
	}
	return ""
}

// diffContext shows the neighbourhood of the first difference.
func diffContext(a, b string, first bool) string {
	i := 0
	for i < len(a) && i < len(b) && a[i] == b[i] {
		i++
	}
	lo := i - 120
	if lo < 0 {
		lo = 0
	}
	s := b
	if first {
		s = a
	}
	hi := i + 160
	if hi > len(s) {
		hi = len(s)
	}
	if lo > len(s) {
		lo = len(s)
	}
	return "…" + s[lo:hi] + "…"
}

func TestC15(t *testing.T) {
	S("C15").Rule = "scenarios biased to where order can leak: map options pre-populated with 2-6 (sometimes 9-14) entries and described (rendered as help default), maps filled from the command line, INI text setting the same options from several sections (all key/section spellings) with 0-2 independent faults (unknown keys, or unconvertible values of two or three different options), callback options set from INI, ~30% required options, up to 3 sub-commands per level, completion requests; each scenario is evaluated 40 times on fresh builds in one process (Go randomises every map range) and help, man page, INI output, parse error type+message, remaining args, all option values, INI error and values, completion items must be identical. non-trivial: a multi-entry map reaches help, or several INI sections, or two simultaneous faults; distinct by digest of the outputs"
	runProp(t, "C15", genC15, c15Oracle)
}
