package props

import (
	"fmt"
	"os"
	"sort"
	"strings"
	"testing"

	flags "github.com/jessevdk/go-flags"
	"pgregory.net/rapid"
)

// C18: completion offers exactly the valid continuations.

type C18Case struct {
	D      *Decl    `json:"decl"`
	Prefix []string `json:"prefix"`
	Last   string   `json:"last"`
}

var _ = Register("C18", func() interface{} { return new(C18Case) }, func(c interface{}) string { return c18Oracle(c.(*C18Case)) })

var c18Decl = &GenCfg{Depth: 3, Fanout: 3, MaxOpts: 4, MaxGroups: 2, NestGroups: 1, Kinds: []Kind{KComp, KCompSlice, KCompPtr, KString, KInt, KBool, KBoolSlice, KStringSlice, KFuncS},
	Pos: true, PosPct: 25, Ns: true, Req: 0, OptArg: true, Aliases: true, SubOpt: 40, NonASCII: true, CmdPct: 85, Desc: true, InCode: 10, ViaAdd: 5, StaticTwins: true}

var c18Argv = &ArgvCfg{MaxItems: 2, WOpt: 55, WCluster: 12, WCmd: 8, WPlain: 8, WTerm: 2, WUnknown: 0, WJunk: 0, WRepeat: 10, BadVal: 0, Quote: 3}

func genC18(t *rapid.T) *C18Case {
	d := genDecl(t, c18Decl)
	d.Opts = uint(flags.PassDoubleDash)
	if rapid.Bool().Draw(t, "helpFlag") {
		d.Opts |= uint(flags.HelpFlag)
	}
	// hidden marks on options and commands (not on groups), Comp positionals
	d.EachCmd(func(c *Cmd, _ []*Cmd) {
		if c != &d.Root && rapid.IntRange(0, 4).Draw(t, "hiddenCmd") == 0 {
			c.Hidden = true
		}
		c.G.EachGroup(func(g *Group, _ []*Group) {
			for i := range g.Options {
				if rapid.IntRange(0, 4).Draw(t, "hiddenOpt") == 0 {
					g.Options[i].Hidden = "yes"
				}
			}
		})
		if c.Pos != nil {
			for i := range c.Pos.Args {
				if rapid.Bool().Draw(t, "compPos") {
					if c.Pos.Args[i].Kind.IsSlice() {
						c.Pos.Args[i].Kind = KCompSlice
					} else {
						c.Pos.Args[i].Kind = KComp
					}
				}
			}
		}
	})
	c := &C18Case{D: d}
	for try := 0; try < 3; try++ {
		p := genArgv(t, d, c18Argv)
		if _, ok := WalkPrefix(d, p); ok {
			c.Prefix = p
			break
		}
	}
	ws, _ := WalkPrefix(d, c.Prefix)
	var longs, shorts []string
	var compLong, compShort []string
	for n, o := range ws.Long {
		longs = append(longs, n)
		if o.Kind == KComp || o.Kind == KCompSlice || o.Kind == KCompPtr {
			compLong = append(compLong, n)
		}
	}
	for s, o := range ws.Short {
		shorts = append(shorts, s)
		if (o.Kind == KComp || o.Kind == KCompSlice || o.Kind == KCompPtr) && !o.IsOptional() {
			compShort = append(compShort, s)
		}
	}
	sort.Strings(longs)
	sort.Strings(shorts)
	sort.Strings(compLong)
	sort.Strings(compShort)
	var cmds []string
	for i := range ws.Ctx.Cmds {
		cmds = append(cmds, ws.Ctx.Cmds[i].Name)
		cmds = append(cmds, ws.Ctx.Cmds[i].Aliases...)
	}
	partialOf := func(label string, pool []string) string {
		if len(pool) == 0 {
			return rapid.SampledFrom([]string{"", "a", "zz"}).Draw(t, label+"None")
		}
		s := rapid.SampledFrom(pool).Draw(t, label)
		rs := []rune(s)
		return string(rs[:rapid.IntRange(0, len(rs)).Draw(t, label+"Cut")])
	}
	compPartial := func() string {
		return rapid.SampledFrom([]string{"", "a", "al", "alp", "be", "be-", "g", "x", "-", "-d", "=", "alpha", "rel", "Rel", "RELEASE-", "ma", "MAIN", "m", "A"}).Draw(t, "compPartial")
	}
	switch weighted(t, "lastKind", []int{8, 10, 8, 20, 6, 8, 6, 10, 14, 12}) {
	case 0:
		c.Last = ""
	case 1:
		c.Last = "-"
	case 2:
		c.Last = "--"
	case 3:
		c.Last = "--" + partialOf("longPartial", longs)
	case 4:
		c.Last = "-" + partialOf("shortPartial", shorts)
	case 5:
		if len(compShort) > 0 {
			c.Last = "-" + rapid.SampledFrom(compShort).Draw(t, "cs") + compPartial()
		} else {
			c.Last = "-"
		}
	case 6:
		if len(compShort) > 0 {
			c.Last = "-" + rapid.SampledFrom(compShort).Draw(t, "cs") + "=" + compPartial()
		} else {
			c.Last = "--"
		}
	case 7:
		if len(compLong) > 0 {
			c.Last = "--" + rapid.SampledFrom(compLong).Draw(t, "cl") + "=" + compPartial()
		} else if len(longs) > 0 {
			c.Last = "--" + rapid.SampledFrom(longs).Draw(t, "anyLong") + "=" + compPartial()
		}
	case 8:
		if len(ws.Pending) > 0 {
			c.Last = compPartial()
		} else {
			c.Last = partialOf("cmdPartial", cmds)
		}
	case 9:
		// value position: a Comp option in separate form, then the partial value
		var sep []string
		for _, n := range compLong {
			if !ws.Long[n].IsOptional() {
				sep = append(sep, "--"+n)
			}
		}
		for _, s := range compShort {
			sep = append(sep, "-"+s)
		}
		sort.Strings(sep)
		if len(sep) > 0 {
			c.Prefix = append(append([]string{}, c.Prefix...), rapid.SampledFrom(sep).Draw(t, "sepOpt"))
			c.Last = compPartial()
		} else {
			c.Last = partialOf("cmdPartial", cmds)
		}
	}
	return c
}

func c18Complete(d *Decl, words []string) (items []string, called bool, pm string) {
	defer guardCall("completion")()
	b := Build(d)
	if b.Err != nil {
		return nil, false, "setup: " + b.Err.Error()
	}
	b.P.CompletionHandler = func(its []flags.Completion) {
		called = true
		for _, it := range its {
			items = append(items, it.Item)
		}
	}
	os.Setenv("GO_FLAGS_COMPLETION", "1")
	defer os.Unsetenv("GO_FLAGS_COMPLETION")
	pm = Safely(func() { b.P.ParseArgs(append([]string{}, words...)) })
	return
}

func c18Oracle(c *C18Case) string {
	st := S("C18")
	d := c.D
	// value position: the prefix ends in a non-optional argument-taking option in separate form
	prefix := c.Prefix
	var valueOpt *OptInfo
	ws, ok := WalkPrefix(d, prefix)
	if !ok && len(prefix) > 0 {
		if w2, ok2 := WalkPrefix(d, prefix[:len(prefix)-1]); ok2 {
			lastTok := prefix[len(prefix)-1]
			var o *OptInfo
			if strings.HasPrefix(lastTok, "--") && !strings.Contains(lastTok, "=") {
				o = w2.Long[lastTok[2:]]
			} else if strings.HasPrefix(lastTok, "-") && len([]rune(lastTok)) == 2 {
				o = w2.Short[lastTok[1:]]
			}
			if o != nil && !o.Kind.IsFlag() && !o.IsOptional() && o.ID != "__help" {
				valueOpt, ws, ok = o, w2, true
			}
		}
	}
	if !ok {
		st.Label("skip: prefix is not a valid command-line prefix")
		return ""
	}
	words := append(append([]string{}, prefix...), c.Last)
	items, called, pm := c18Complete(d, words)
	if strings.HasPrefix(pm, "setup") {
		st.Label("skip: setup error")
		return ""
	}
	if pm != "" {
		return fmt.Sprintf("completion panicked on %q: %s", words, pm)
	}
	if !called {
		return fmt.Sprintf("completion handler not called for %q", words)
	}
	if !sort.StringsAreSorted(items) {
		return fmt.Sprintf("completion list for %q is not sorted: %q", words, items)
	}
	// terminator in the prefix?
	afterTerm := false
	refP := Ref(&RefInput{D: d, Args: prefix, WalkOnly: true})
	for _, cl := range refP.Class {
		if cl == TcTerminator {
			afterTerm = true
		}
	}
	isComp := func(k Kind) bool { return k == KComp || k == KCompSlice || k == KCompPtr }
	comps := func(pfx, match string) []string {
		var r []string
		for _, w := range compRef(match) {
			r = append(r, pfx+w)
		}
		sort.Strings(r)
		return r
	}
	var want []string
	settled := true
	class := ""
	last := c.Last
	switch {
	case afterTerm:
		settled, class = false, "after terminator"
	case valueOpt != nil:
		if isComp(valueOpt.Kind) {
			want, class = comps("", last), "separate value of a completing option"
		} else {
			settled, class = false, "value of a non-completing option"
		}
	case strings.HasPrefix(last, "--"):
		body := last[2:]
		if i := strings.Index(body, "="); i >= 0 {
			o := ws.Long[body[:i]]
			if o != nil && isComp(o.Kind) {
				want, class = comps("--"+body[:i]+"=", body[i+1:]), "--name=partial value"
			} else {
				settled, class = false, "value of a non-completing or unknown option"
			}
		} else {
			class = "partial long option name"
			for n, o := range ws.Long {
				if strings.HasPrefix(n, body) && !o.IsHidden() {
					want = append(want, "--"+n)
				}
			}
			sort.Strings(want)
		}
	case last == "-":
		class = "bare dash"
		seen := map[string]bool{}
		for n, o := range ws.Long {
			if !o.IsHidden() {
				want = append(want, "--"+n)
			}
			seen[o.ID] = true
		}
		for s, o := range ws.Short {
			if !seen[o.ID] && !o.IsHidden() {
				// reachable here only by its short name
				want = append(want, "-"+s)
			}
		}
		sort.Strings(want)
	case strings.HasPrefix(last, "-"):
		body := last[1:]
		rs := []rune(body)
		first := string(rs[0])
		o := ws.Short[first]
		switch {
		case len(rs) >= 2 && rs[1] == '=':
			if o != nil && isComp(o.Kind) {
				want, class = comps("-"+first+"=", string(rs[2:])), "-x=partial value"
			} else {
				settled, class = false, "value of a non-completing or unknown option"
			}
		case o != nil && isComp(o.Kind):
			want, class = comps("-"+first, string(rs[1:])), "-xpartial value"
		default:
			settled, class = false, "short option or cluster"
		}
	default:
		if len(ws.Pending) > 0 {
			if isComp(ws.Pending[0].Kind) {
				want, class = comps("", last), "pending completing positional"
			} else {
				settled, class = false, "pending non-completing positional"
			}
		} else {
			class = "sub-command names"
			for i := range ws.Ctx.Cmds {
				sc := &ws.Ctx.Cmds[i]
				if !sc.Hidden && strings.HasPrefix(sc.Name, last) {
					want = append(want, sc.Name)
				}
			}
			sort.Strings(want)
		}
	}
	st.Label("class: " + class)
	if Known("F-C18-2") && class == "bare dash" {
		// listed finding: an inner short-only option shadowing an outer -x/--long is omitted
		settled = false
		st.Exclude("known finding F-C18-2")
	}
	if settled {
		if !strSliceEq(items, want) {
			return fmt.Sprintf("words %q (%s): completion offers %q, expected exactly %q (context %q)", words, class, items, want, chainNames(ws.Chain[1:]))
		}
	}
	// every offered option or command is accepted by the parser at that position
	for _, it := range items {
		isOptItem := strings.HasPrefix(it, "-")
		if class != "partial long option name" && class != "bare dash" && class != "sub-command names" {
			break
		}
		rr := RunReal(d, append(append([]string{}, prefix...), it), nil, nil)
		if rr.Panic != "" || rr.SetupErr != nil {
			continue
		}
		if fe := FlagsErr(rr.Err); fe != nil {
			if isOptItem && fe.Type == flags.ErrUnknownFlag {
				return fmt.Sprintf("words %q: offered option %q is rejected by the parser: %s", words, it, fe.Message)
			}
			if !isOptItem && fe.Type == flags.ErrUnknownCommand && strings.Contains(fe.Message, "`"+it+"'") {
				return fmt.Sprintf("words %q: offered command %q is rejected by the parser: %s", words, it, fe.Message)
			}
		}
	}
	// the parser's own parse of the prefix reaches the same command context
	if valueOpt == nil {
		rr := RunReal(d, prefix, nil, nil)
		if rr.Panic == "" && rr.SetupErr == nil {
			if got, w := rr.B.ActiveChain(), chainNames(ws.Chain[1:]); !strSliceEq(got, w) {
				return fmt.Sprintf("prefix %q: parser reaches command context %q, expected %q", prefix, got, w)
			}
		}
	}
	// non-trivial classification
	rich := false
	for _, cl := range refP.Class {
		if cl == TcCommand || cl == TcOptArg {
			rich = true
		}
	}
	for i, cl := range refP.Class {
		if cl == TcOption && len(refP.TokOpt[i]) > 1 {
			rich = true
		}
	}
	hiddenShares := false
	if class == "partial long option name" {
		for n, o := range ws.Long {
			if strings.HasPrefix(n, last[2:]) && o.IsHidden() {
				hiddenShares = true
			}
		}
	}
	if class == "sub-command names" {
		for i := range ws.Ctx.Cmds {
			if ws.Ctx.Cmds[i].Hidden && strings.HasPrefix(ws.Ctx.Cmds[i].Name, last) {
				hiddenShares = true
			}
		}
	}
	if hiddenShares {
		st.Label("hidden item shares the prefix")
	}
	if settled && rich && (len(want) > 0 || hiddenShares) {
		st.NonTrivial(declSig(d)+strings.Join(words, "\x00"), map[string]interface{}{"words": words, "class": class, "offered": items})
	}
	return ""
}

func TestC18(t *testing.T) {
	S("C18").Rule = "declarations with completing (Completer) and plain option/positional types, hidden options and commands, commands depth <= 3 with aliases and clashing names, PassDoubleDash always set x prefix that R parses without error (options with separate/attached arguments, clusters, command words, positionals, terminator) x partial last word ('', '-', '--', --pre, -x, -xpre, -x=pre, --name=pre, pre, separate value of a completing option); oracle from R's state after the prefix: partial long name / bare dash => exactly the non-hidden in-scope options; value of a completing option or positional => exactly the type's completions re-attached to the spelling; plain word without pending positional => exactly the non-hidden sub-command names; always sorted, offered options/commands not rejected as unknown by the real parser, and the real parser's active chain on the prefix equals R's. Positions the statement does not settle get only the last three checks. non-trivial: settled class, prefix contains a command word, a separate option argument or a cluster, and the expected set is non-empty or a hidden item shares the prefix; distinct by (declaration signature, words)"
	runProp(t, "C18", genC18, c18Oracle)
}
