package props

import (
	"fmt"
	"sort"
	"strings"
	"testing"
	"unicode/utf8"

	flags "github.com/jessevdk/go-flags"
	"pgregory.net/rapid"
)

// C20: unknown-command diagnostics name the truly nearest command.

type C20Case struct {
	Names  []string `json:"names"`
	Hidden []bool   `json:"hidden"`
	HasArg bool     `json:"has_arg"`
	Word   string   `json:"word"`
	// LateHide: the commands are declared visible, one diagnostic is produced,
	// then the Hidden field of the commands is set (it is a public field)
	LateHide bool `json:"late_hide,omitempty"`
	// Aliases of the commands (never part of a diagnostic)
	Aliases [][]string `json:"aliases,omitempty"`
	// Trail: further tokens after the word (the diagnosis concerns the word:
	// nothing after an unrecognised command word can be interpreted)
	Trail []string `json:"trail,omitempty"`
	// Parent: the commands are the sub-commands of this command (which may
	// itself be hidden: that does not hide its sub-commands from diagnostics
	// given once it has been selected); the argument vector starts with it
	Parent       string `json:"parent,omitempty"`
	ParentHidden bool   `json:"parent_hidden,omitempty"`
	// HelpFlag: the built-in help option is present
	HelpFlag bool `json:"help_flag,omitempty"`
	// ParentProg: the parent (and so its sub-commands) is added with AddCommand;
	// its data implements Commander. RootOptional: sub-commands are optional at
	// the root - not below the parent
	ParentProg   bool `json:"parent_prog,omitempty"`
	RootOptional bool `json:"root_optional,omitempty"`
}

var _ = Register("C20", func() interface{} { return new(C20Case) }, func(c interface{}) string { return c20Oracle(c.(*C20Case)) })

func refLevenshtein(a, b string) int {
	s, t := []rune(a), []rune(b)
	prev := make([]int, len(t)+1)
	cur := make([]int, len(t)+1)
	for j := range prev {
		prev[j] = j
	}
	for i := 1; i <= len(s); i++ {
		cur[0] = i
		for j := 1; j <= len(t); j++ {
			c := prev[j-1]
			if s[i-1] != t[j-1] {
				c++
			}
			if prev[j]+1 < c {
				c = prev[j] + 1
			}
			if cur[j-1]+1 < c {
				c = cur[j-1] + 1
			}
			cur[j] = c
		}
		prev, cur = cur, prev
	}
	return prev[len(t)]
}

// (é/è, д/н and 中/丟 share their UTF-8 lead byte; é/ũ share the trail byte)
var c20Alphabet = []rune{'a', 'b', 'c', 'd', 'é', 'è', '中', '丟', 'д', 'н', 'ũ'}

func genC20Word(t *rapid.T, label string, min, max int) string {
	rs := rapid.SliceOfN(rapid.SampledFrom(c20Alphabet), min, max).Draw(t, label)
	return string(rs)
}

func genC20(t *rapid.T) *C20Case {
	c := &C20Case{}
	n := rapid.IntRange(1, 6).Draw(t, "ncmd")
	seen := map[string]bool{}
	for len(c.Names) < n {
		nm := genC20Word(t, "name", 1, 8)
		if seen[nm] {
			// construct a distinct one instead of rejecting
			nm = nm + string(c20Alphabet[len(c.Names)%len(c20Alphabet)])
			if seen[nm] || utf8.RuneCountInString(nm) > 9 {
				continue
			}
		}
		seen[nm] = true
		c.Names = append(c.Names, nm)
		c.Hidden = append(c.Hidden, rapid.IntRange(0, 4).Draw(t, "hidden") == 0)
	}
	if rapid.IntRange(0, 19).Draw(t, "longNames") == 0 {
		// very long command names (and, below, words derived from them)
		for i := range c.Names {
			c.Names[i] += strings.Repeat(string(c20Alphabet[i%len(c20Alphabet)]), rapid.IntRange(55, 130).Draw(t, "nameLen"))
		}
	}
	if rapid.IntRange(0, 2).Draw(t, "withAliases") == 0 {
		c.Aliases = make([][]string, len(c.Names))
		for i := range c.Names {
			for j := rapid.IntRange(0, 2).Draw(t, "naliases"); j > 0; j-- {
				al := genC20Word(t, "alias", 1, 6)
				// (or a near miss of some name, so that it competes in distance)
				if rapid.Bool().Draw(t, "aliasNearName") {
					w := []rune(rapid.SampledFrom(c.Names).Draw(t, "aliasBase"))
					if len(w) < 20 {
						w[rapid.IntRange(0, len(w)-1).Draw(t, "aliasPos")] = rapid.SampledFrom(c20Alphabet).Draw(t, "aliasRune")
						al = string(w)
					}
				}
				if !seen[al] {
					seen[al] = true
					c.Aliases[i] = append(c.Aliases[i], al)
				}
			}
		}
	}
	c.LateHide = rapid.IntRange(0, 2).Draw(t, "lateHide") == 0
	switch rapid.IntRange(0, 9).Draw(t, "wordkind") {
	case 0:
		c.HasArg = false
	case 1, 2:
		c.HasArg = true
		c.Word = genC20Word(t, "word", 0, 10)
	default:
		// 1..3 edits of a name
		c.HasArg = true
		w := []rune(rapid.SampledFrom(c.Names).Draw(t, "base"))
		ne := rapid.IntRange(1, 3).Draw(t, "nedits")
		for e := 0; e < ne; e++ {
			switch rapid.IntRange(0, 3).Draw(t, "edit") {
			case 0: // delete
				if len(w) > 0 {
					i := rapid.IntRange(0, len(w)-1).Draw(t, "pos")
					w = append(w[:i:i], w[i+1:]...)
				}
			case 1: // insert
				i := rapid.IntRange(0, len(w)).Draw(t, "pos")
				r := rapid.SampledFrom(c20Alphabet).Draw(t, "r")
				w = append(w[:i:i], append([]rune{r}, w[i:]...)...)
			case 2: // substitute
				if len(w) > 0 {
					i := rapid.IntRange(0, len(w)-1).Draw(t, "pos")
					w[i] = rapid.SampledFrom(c20Alphabet).Draw(t, "r")
				}
			case 3: // swap neighbours
				if len(w) > 1 {
					i := rapid.IntRange(0, len(w)-2).Draw(t, "pos")
					w[i], w[i+1] = w[i+1], w[i]
				}
			}
		}
		c.Word = string(w)
	}
	if rapid.IntRange(0, 3).Draw(t, "nested") == 0 {
		c.Parent = rapid.SampledFrom([]string{"debug", "x", "дн"}).Draw(t, "parent")
		c.ParentHidden = rapid.Bool().Draw(t, "parentHidden")
		c.ParentProg = rapid.Bool().Draw(t, "parentProg")
		c.RootOptional = rapid.Bool().Draw(t, "rootOptional")
	}
	c.HelpFlag = rapid.IntRange(0, 2).Draw(t, "helpFlag") == 0
	if c.HasArg && rapid.IntRange(0, 9).Draw(t, "wordOfLength") == 0 {
		c.Word = strings.Repeat(string(rapid.SampledFrom(c20Alphabet).Draw(t, "fill")), uniformInt(t, "wordLen", 141))
	}
	if c.HasArg && rapid.IntRange(0, 11).Draw(t, "helpWord") == 0 {
		c.Word = rapid.SampledFrom([]string{"help", "Help", "hel", "helps"}).Draw(t, "helpWordText")
	}
	if c.HasArg && rapid.IntRange(0, 3).Draw(t, "withTrail") == 0 {
		c.Trail = rapid.SliceOfN(rapid.SampledFrom([]string{"--bogus", "--name", "-v", "x", "--", "--name=1", "-"}), 1, 3).Draw(t, "trail")
	}
	return c
}

func c20Decl(c *C20Case) *Decl {
	d := &Decl{Root: Cmd{ID: "root", Name: "app"}}
	if c.HelpFlag {
		d.Opts |= uint(flags.HelpFlag)
	}
	d.Root.G.Groups = []Group{{Field: "G0", Desc: "Application Options"}}
	host := &d.Root
	if c.Parent != "" {
		d.Root.Cmds = []Cmd{{ID: "parent", Name: c.Parent, Field: "Parent", ByTag: !c.ParentProg, Hidden: c.ParentHidden, Desc: "p"}}
		d.Root.SubOpt = c.RootOptional
		host = &d.Root.Cmds[0]
	}
	for i, n := range c.Names {
		host.Cmds = append(host.Cmds, Cmd{
			ID: fmt.Sprintf("c%d", i), Name: n, Field: fmt.Sprintf("C%d", i), ByTag: i%2 == 0,
			Hidden: c.Hidden[i], Desc: "d",
		})
		if c.Parent != "" {
			host.Cmds[i].ByTag = !c.ParentProg // (sub-commands of a tag-declared command are tag-declared)
		}
		if i < len(c.Aliases) {
			host.Cmds[i].Aliases = c.Aliases[i]
		}
	}
	return d
}

func parseEnumeration(s string) ([]string, bool) {
	// "a, b or c" / "a or b"
	i := strings.LastIndex(s, " or ")
	if i < 0 {
		return nil, false
	}
	head, last := s[:i], s[i+4:]
	return append(strings.Split(head, ", "), last), true
}

func c20Oracle(c *C20Case) string {
	st := S("C20")
	var visible []string
	isName := false
	for i, n := range c.Names {
		if !c.Hidden[i] {
			visible = append(visible, n)
		}
		if c.HasArg && n == c.Word {
			isName = true
		}
		if i < len(c.Aliases) {
			for _, a := range c.Aliases[i] {
				if c.HasArg && a == c.Word {
					isName = true
				}
			}
		}
	}
	sort.Strings(visible)
	if isName {
		st.Label("word-is-command")
		return ""
	}
	var args []string
	if c.HasArg {
		args = append([]string{c.Word}, c.Trail...)
	}
	decl := c20Decl(c)
	host := &decl.Root
	if c.Parent != "" {
		host = &decl.Root.Cmds[0]
		args = append([]string{c.Parent}, args...)
	}
	if c.LateHide {
		for i := range host.Cmds {
			host.Cmds[i].Hidden = false
		}
	}
	b := Build(decl)
	if b.Err != nil {
		return "setup error: " + b.Err.Error()
	}
	if c.LateHide {
		warm := []string{"\x00warmup"}
		if c.Parent != "" {
			warm = []string{c.Parent, "\x00warmup"}
		}
		Safely(func() { b.P.ParseArgs(warm) })
		for i := range host.Cmds {
			b.Cmds[host.Cmds[i].ID].Hidden = c.Hidden[i]
		}
		b.P.Active = nil
		if c.Parent != "" {
			b.Cmds["parent"].Active = nil
		}
		st.Label("hidden marks set after a first diagnostic")
	}
	var err error
	if pm := Safely(func() { _, err = b.P.ParseArgs(args) }); pm != "" {
		return pm
	}
	fe, ok := err.(*flags.Error)
	if !ok {
		return fmt.Sprintf("expected *flags.Error, got %T %v", err, err)
	}
	msg := fe.Message
	for i, n := range c.Names {
		if !c.Hidden[i] {
			continue
		}
		// a hidden name must not be suggested or enumerated (checked
		// structurally below); a plain substring test would be unsound
		// because names overlap, so nothing here.
		_ = n
	}
	checkEnum := func(rest string, single, multi string) string {
		switch len(visible) {
		case 0:
			if rest != "" {
				return fmt.Sprintf("no visible command, yet message continues %q", rest)
			}
		case 1:
			if rest != fmt.Sprintf(single, visible[0]) {
				return fmt.Sprintf("expected %q, got %q", fmt.Sprintf(single, visible[0]), rest)
			}
		default:
			if !strings.HasPrefix(rest, multi) {
				return fmt.Sprintf("expected enumeration prefix %q in %q", multi, rest)
			}
			got, ok := parseEnumeration(rest[len(multi):])
			if !ok || strings.Join(got, "\x00") != strings.Join(visible, "\x00") {
				return fmt.Sprintf("enumeration %q is not the sorted visible commands %q", got, visible)
			}
		}
		return ""
	}
	if !c.HasArg {
		if fe.Type != flags.ErrCommandRequired {
			return fmt.Sprintf("expected ErrCommandRequired, got %v: %s", fe.Type, msg)
		}
		st.Label("command-required")
		if len(visible) >= 2 {
			st.NonTrivial("req|"+strings.Join(c.Names, ",")+fmt.Sprint(c.Hidden), c)
		}
		return checkEnum(msg, "Please specify the %s command", "Please specify one command of: ")
	}
	if fe.Type != flags.ErrUnknownCommand {
		return fmt.Sprintf("expected ErrUnknownCommand, got %v: %s", fe.Type, msg)
	}
	head := "Unknown command `" + c.Word + "'"
	if !strings.HasPrefix(msg, head) {
		return fmt.Sprintf("message %q does not name the word %q", msg, c.Word)
	}
	rest := msg[len(head):]
	// reference distances
	min := -1
	for _, v := range visible {
		d := refLevenshtein(c.Word, v)
		if refLevenshtein(v, c.Word) != d {
			panic("reference distance not symmetric")
		}
		if min < 0 || d < min {
			min = d
		}
	}
	multibyte := len(c.Word) != utf8.RuneCountInString(c.Word)
	for _, v := range visible {
		if len(v) != utf8.RuneCountInString(v) {
			multibyte = true
		}
	}
	if min >= 0 && (min <= 3 || multibyte) {
		st.NonTrivial("w|"+c.Word+"|"+strings.Join(c.Names, ",")+fmt.Sprint(c.Hidden), c)
	}
	if multibyte {
		st.Label("multibyte")
	}
	if len(c.Aliases) > 0 {
		st.Label("commands with aliases")
	}
	if len(c.Trail) > 0 {
		st.Label("tokens after the unrecognised word")
	}
	if c.Parent != "" {
		st.Label("sub-commands of a command")
		if c.ParentHidden {
			st.Label("sub-commands of a hidden command")
		}
	}
	const dym = ", did you mean `"
	if strings.HasPrefix(rest, dym) && strings.HasSuffix(rest, "'?") {
		sug := rest[len(dym) : len(rest)-2]
		st.Label("suggested")
		isVisible := false
		for _, v := range visible {
			if v == sug {
				isVisible = true
			}
		}
		if !isVisible {
			return fmt.Sprintf("suggested %q is not a visible command (visible %q)", sug, visible)
		}
		d := refLevenshtein(c.Word, sug)
		if d != min {
			return fmt.Sprintf("word %q: suggested %q at distance %d, but minimum distance over %q is %d", c.Word, sug, d, visible, min)
		}
		// threshold: distance < half the name's length; characters, byte
		// length tolerated for multi-byte names
		if !(2*d < utf8.RuneCountInString(sug) || 2*d < len(sug)) {
			return fmt.Sprintf("word %q: suggested %q at distance %d which is not less than half its length", c.Word, sug, d)
		}
		return ""
	}
	st.Label("enumerated")
	// enumeration is legitimate only if some nearest visible name fails the
	// threshold (sound under any tie-break)
	if len(visible) > 0 {
		someFails := false
		for _, v := range visible {
			if refLevenshtein(c.Word, v) == min && !(2*min < utf8.RuneCountInString(v)) {
				someFails = true
			}
		}
		if !someFails {
			return fmt.Sprintf("word %q: every nearest visible command (distance %d, visible %q) is within the threshold, but none was suggested: %q", c.Word, min, visible, msg)
		}
	}
	return checkEnum(rest, ". You should use the %s command", ". Please specify one command of: ")
}

func TestC20(t *testing.T) {
	S("C20").Rule = "1-6 command names (len 1-8 over {a,b,c,d,é,è,ũ,д,н,中,丟}, in 5% of cases extended to 56-138 characters, ~20% hidden, a third of the cases with 0-2 aliases per command, alternating tag/programmatic declaration) x word (absent | random | 1-3 edits of a name); oracle: own rune Levenshtein + parsed message. non-trivial: word is no command name and (nearest visible distance <= 3 or multi-byte involved), or command-required with >= 2 visible; distinct by (names, hidden, word)"
	runProp(t, "C20", genC20, c20Oracle)
}
