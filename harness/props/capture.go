package props

// fd-level capture of standard output and standard error around one call.

import (
	"io"
	"os"
	"sync"
	"syscall"
)

var (
	capOnce        sync.Once
	capOut, capErr *os.File
	capInitErr     error
)

func capInit() {
	mk := func() *os.File {
		f, err := os.CreateTemp("", "vcap")
		if err != nil {
			capInitErr = err
			return nil
		}
		os.Remove(f.Name())
		return f
	}
	capOut, capErr = mk(), mk()
}

// CaptureStd runs f with fds 1 and 2 redirected to scratch files and returns
// what was written to each.
func CaptureStd(f func()) (stdout, stderr string, err error) {
	capOnce.Do(capInit)
	if capInitErr != nil {
		f()
		return "", "", capInitErr
	}
	for _, cf := range []*os.File{capOut, capErr} {
		cf.Truncate(0)
		cf.Seek(0, io.SeekStart)
	}
	os.Stdout.Sync()
	save1, e1 := syscall.Dup(1)
	save2, e2 := syscall.Dup(2)
	if e1 != nil || e2 != nil {
		f()
		return "", "", e1
	}
	syscall.Dup2(int(capOut.Fd()), 1)
	syscall.Dup2(int(capErr.Fd()), 2)
	func() {
		defer func() {
			syscall.Dup2(save1, 1)
			syscall.Dup2(save2, 2)
			syscall.Close(save1)
			syscall.Close(save2)
		}()
		f()
	}()
	rd := func(cf *os.File) string {
		cf.Seek(0, io.SeekStart)
		b, _ := io.ReadAll(cf)
		return string(b)
	}
	return rd(capOut), rd(capErr), nil
}
