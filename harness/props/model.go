package props

// Declaration model: pure data describing a go-flags declaration (option
// structs, groups, commands, positional arguments). Build() turns it into real
// Go struct types with reflect.StructOf and assembles a flags.Parser over them.

import (
	"fmt"
	"reflect"
	"strconv"
	"strings"
	"time"

	flags "github.com/jessevdk/go-flags"
)

type Kind string

const (
	KBool        Kind = "bool"
	KBoolSlice   Kind = "[]bool"
	KBoolPtr     Kind = "*bool"
	KToggle      Kind = "Toggle"          // named type over bool without methods: a plain flag
	KMapSB       Kind = "map[string]bool" // map whose values are of kind bool: still takes an argument
	KString      Kind = "string"
	KStringPtr   Kind = "*string"
	KStringSlice Kind = "[]string"
	KInt         Kind = "int"
	KInt8        Kind = "int8"
	KInt16       Kind = "int16"
	KInt32       Kind = "int32"
	KInt64       Kind = "int64"
	KUint        Kind = "uint"
	KUint8       Kind = "uint8"
	KUint16      Kind = "uint16"
	KUint32      Kind = "uint32"
	KUint64      Kind = "uint64"
	KIntSlice    Kind = "[]int"
	KIntPtr      Kind = "*int"
	KUint8Slice  Kind = "[]uint8"
	KFloat32     Kind = "float32"
	KFloat64     Kind = "float64"
	KFloatSlice  Kind = "[]float64"
	KDuration    Kind = "duration"
	KDurSlice    Kind = "[]duration"
	KDurPtr      Kind = "*duration"
	KMapFS       Kind = "map[float64]string"
	KMapSS       Kind = "map[string]string"
	KMapSI       Kind = "map[string]int"
	KMapIS       Kind = "map[int]string"
	KLvl         Kind = "Lvl"   // int8-kinded type that also has UnmarshalText/MarshalText (which the library does not use)
	KValid       Kind = "Valid" // string type that validates separate-token arguments itself (ValueValidator)
	KUpper       Kind = "Upper"
	KUpperSlice  Kind = "[]Upper"
	KComp        Kind = "Comp"
	KCompSlice   Kind = "[]Comp"
	KCompPtr     Kind = "*Comp"
	KTri         Kind = "Tri" // bool-kinded type with a custom unmarshaler: takes an argument
	KFunc0       Kind = "func()"
	KFuncS       Kind = "func(string)"
	KFuncI       Kind = "func(int)"
	KFuncSS      Kind = "func([]string)" // aggregate parameter: every call gets a fresh one-element slice
	KFunc0E      Kind = "func() error"
	KFuncSE      Kind = "func(string) error"
)

// Upper is a custom (un)marshaler type. The value denoted by text v is "U:"+v
// (the empty text denotes the zero value, so that marshalling is the inverse of
// unmarshalling on every reachable value); text containing "!bad" denotes nothing.
type Upper string

// Toggle is a named type over bool (no methods): a flag like any bool.
type Toggle bool

// Lvl is an integer type that additionally implements the standard library's
// encoding.TextUnmarshaler / TextMarshaler with a symbolic spelling. The option
// parser documents conversion by kind and by its own Unmarshaler interface only,
// so these methods must play no part.
type Lvl int8

func (l *Lvl) UnmarshalText(b []byte) error {
	switch string(b) {
	case "LOW":
		*l = 1
	case "HIGH":
		*l = 100
	default:
		return fmt.Errorf("lvl: unknown level %q", b)
	}
	return nil
}

func (l Lvl) MarshalText() ([]byte, error) { return []byte(fmt.Sprintf("LEVEL(%d)", int8(l))), nil }

// Valid decides itself which separate-token arguments it takes (ValueValidator):
// anything not starting with a dash, and option-looking tokens starting "-ok".
type Valid string

func ValidAccepts(s string) bool { return !strings.HasPrefix(s, "-") || strings.HasPrefix(s, "-ok") }

func (v *Valid) IsValidValue(s string) error {
	if !ValidAccepts(s) {
		return fmt.Errorf("valid: %q looks like an option", s)
	}
	return nil
}

func (u *Upper) UnmarshalFlag(v string) error {
	if strings.Contains(v, "!bad") {
		return fmt.Errorf("upper: bad value")
	}
	if v == "" {
		*u = ""
		return nil
	}
	*u = Upper("U:" + v)
	return nil
}

func (u Upper) MarshalFlag() (string, error) {
	return strings.TrimPrefix(string(u), "U:"), nil
}

// Tri is a bool-kinded type with custom (un)marshalling: "on" / "off". Although
// its kind is bool it takes an argument like any other unmarshaler type.
type Tri bool

func (b *Tri) UnmarshalFlag(v string) error {
	switch v {
	case "on", "": // (the empty text too: a bool-kinded type that is treated as a plain flag then "works" while losing its argument)
		*b = true
	case "off":
		*b = false
	default:
		return fmt.Errorf("tri: expected on or off")
	}
	return nil
}

func (b Tri) MarshalFlag() (string, error) {
	if b {
		return "on", nil
	}
	return "off", nil
}

// Comp is a string type providing completions from a fixed word list.
type Comp string

// (matching ignores case and the candidates come in their canonical spelling, so
// a candidate need not literally extend what was typed)
var compWords = []string{"alpha", "alps", "beta", "be-ta", "gamma", "-dash", "=eq", "Release-1", "Release-2", "Main-Legacy", "main"}

func compRef(match string) []string {
	var r []string
	for _, w := range compWords {
		if strings.HasPrefix(strings.ToLower(w), strings.ToLower(match)) {
			r = append(r, w)
		}
	}
	return r
}

func (c *Comp) Complete(match string) []flags.Completion {
	var r []flags.Completion
	for _, w := range compRef(match) {
		r = append(r, flags.Completion{Item: w})
	}
	return r
}

var kindTypes = map[Kind]reflect.Type{
	KBool:        reflect.TypeOf(false),
	KBoolSlice:   reflect.TypeOf([]bool(nil)),
	KBoolPtr:     reflect.TypeOf((*bool)(nil)),
	KToggle:      reflect.TypeOf(Toggle(false)),
	KMapSB:       reflect.TypeOf(map[string]bool(nil)),
	KString:      reflect.TypeOf(""),
	KStringPtr:   reflect.TypeOf((*string)(nil)),
	KStringSlice: reflect.TypeOf([]string(nil)),
	KInt:         reflect.TypeOf(int(0)),
	KInt8:        reflect.TypeOf(int8(0)),
	KInt16:       reflect.TypeOf(int16(0)),
	KInt32:       reflect.TypeOf(int32(0)),
	KInt64:       reflect.TypeOf(int64(0)),
	KUint:        reflect.TypeOf(uint(0)),
	KUint8:       reflect.TypeOf(uint8(0)),
	KUint16:      reflect.TypeOf(uint16(0)),
	KUint32:      reflect.TypeOf(uint32(0)),
	KUint64:      reflect.TypeOf(uint64(0)),
	KIntSlice:    reflect.TypeOf([]int(nil)),
	KIntPtr:      reflect.TypeOf((*int)(nil)),
	KUint8Slice:  reflect.TypeOf([]uint8(nil)),
	KFloat32:     reflect.TypeOf(float32(0)),
	KFloat64:     reflect.TypeOf(float64(0)),
	KFloatSlice:  reflect.TypeOf([]float64(nil)),
	KDuration:    reflect.TypeOf(time.Duration(0)),
	KDurSlice:    reflect.TypeOf([]time.Duration(nil)),
	KDurPtr:      reflect.TypeOf((*time.Duration)(nil)),
	KMapFS:       reflect.TypeOf(map[float64]string(nil)),
	KMapSS:       reflect.TypeOf(map[string]string(nil)),
	KMapSI:       reflect.TypeOf(map[string]int(nil)),
	KMapIS:       reflect.TypeOf(map[int]string(nil)),
	KLvl:         reflect.TypeOf(Lvl(0)),
	KValid:       reflect.TypeOf(Valid("")),
	KUpper:       reflect.TypeOf(Upper("")),
	KUpperSlice:  reflect.TypeOf([]Upper(nil)),
	KComp:        reflect.TypeOf(Comp("")),
	KCompSlice:   reflect.TypeOf([]Comp(nil)),
	KCompPtr:     reflect.TypeOf((*Comp)(nil)),
	KTri:         reflect.TypeOf(Tri(false)),
	KFunc0:       reflect.TypeOf((func())(nil)),
	KFuncS:       reflect.TypeOf((func(string))(nil)),
	KFuncI:       reflect.TypeOf((func(int))(nil)),
	KFuncSS:      reflect.TypeOf((func([]string))(nil)),
	KFunc0E:      reflect.TypeOf((func() error)(nil)),
	KFuncSE:      reflect.TypeOf((func(string) error)(nil)),
}

func (k Kind) Type() reflect.Type {
	t, ok := kindTypes[k]
	if !ok {
		panic("unknown kind " + string(k))
	}
	return t
}

func (k Kind) IsSlice() bool { return strings.HasPrefix(string(k), "[]") }
func (k Kind) IsMap() bool   { return strings.HasPrefix(string(k), "map[") }
func (k Kind) IsPtr() bool   { return strings.HasPrefix(string(k), "*") }
func (k Kind) IsFunc() bool  { return strings.HasPrefix(string(k), "func") }
func (k Kind) IsMulti() bool { return k.IsSlice() || k.IsMap() }

// Elem returns the scalar kind of a slice, pointer or one-argument callback.
func (k Kind) Elem() Kind {
	switch {
	case k.IsSlice():
		return Kind(string(k)[2:])
	case k.IsPtr():
		return Kind(string(k)[1:])
	case k == KFuncS || k == KFuncSE || k == KFuncSS:
		return KString
	case k == KFuncI:
		return KInt
	}
	return k
}

func (k Kind) MapKV() (Kind, Kind) {
	switch k {
	case KMapSS:
		return KString, KString
	case KMapSI:
		return KString, KInt
	case KMapIS:
		return KInt, KString
	case KMapFS:
		return KFloat64, KString
	case KMapSB:
		return KString, KBool
	}
	panic("not a map kind")
}

// IsFlag: the option takes no argument (documented: bool v.s. other type).
func (k Kind) IsFlag() bool {
	return k == KBool || k == KBoolSlice || k == KBoolPtr || k == KToggle || k == KFunc0 || k == KFunc0E
}

// IsSignedNum: signed numeric option (accepts a separate negative number).
func (k Kind) IsSignedNum() bool {
	if k.IsMap() || k.IsFunc() {
		return false
	}
	switch k.Elem() {
	case KInt, KInt8, KInt16, KInt32, KInt64, KLvl, KFloat32, KFloat64, KDuration:
		return true
	}
	return false
}

type Opt struct {
	ID          string   `json:"id"`
	Field       string   `json:"field"`
	Kind        Kind     `json:"kind"`
	Short       string   `json:"short,omitempty"`
	Long        string   `json:"long,omitempty"`
	Desc        string   `json:"desc,omitempty"`
	Defaults    []string `json:"defaults,omitempty"`
	Env         string   `json:"env,omitempty"`
	EnvDelim    string   `json:"envdelim,omitempty"`
	Optional    string   `json:"optional,omitempty"`
	OptVals     []string `json:"optvals,omitempty"`
	Required    string   `json:"required,omitempty"`
	ValueName   string   `json:"valuename,omitempty"`
	DefaultMask string   `json:"mask,omitempty"`
	Choices     []string `json:"choices,omitempty"`
	Hidden      string   `json:"hidden,omitempty"`
	Base        int      `json:"base,omitempty"`
	IniName     string   `json:"ininame,omitempty"`
	NoIni       bool     `json:"noini,omitempty"`
	Unquote     string   `json:"unquote,omitempty"`
	Initial     []string `json:"initial,omitempty"`
	RawTag      *string  `json:"rawtag,omitempty"` // used verbatim when set
	CbErr       bool     `json:"cberr,omitempty"`  // callback kinds returning error: the callback fails
	// Inline: the option's field is declared inside an untagged struct-typed
	// field of the group's struct (the library "dives into" such fields):
	// "s" struct, "p" pointer to struct, nil at setup, "P" pointer, allocated,
	// "e" embedded struct. Consecutive options with the same mark share one
	// such field.
	Inline string `json:"inline,omitempty"`
	// InCode: attributes that are not written in the tag but assigned to the
	// fields of the library's Option after construction: "required",
	// "default", "choices", "hidden", "env", "optional", "desc", "valuename",
	// "mask".
	InCode []string `json:"incode,omitempty"`
	// ViaAdd: the option is not a struct field but a separate variable added
	// with Group.AddOption after the group was built (such options come last
	// in their group; they cannot carry tag-only attributes)
	ViaAdd bool `json:"viaadd,omitempty"`
}

func (o *Opt) inCode(attr string) bool {
	for _, a := range o.InCode {
		if a == attr {
			return true
		}
	}
	return false
}

func (o *Opt) IsOptional() bool { return o.Optional != "" }
func (o *Opt) IsRequired() bool { return o.Required != "" }
func (o *Opt) IsHidden() bool   { return o.Hidden != "" }

type Plain struct {
	Field string `json:"field"`
	// Kind: "int", "string", "[]string", "ptr", "map", "bool", "alias:<kind>",
	// or a field marked no-flag whose tag (or whose inner fields' tags) would
	// otherwise declare options named after Init: "noflag" (an int field
	// tagged no-flag + long), "noflagstruct" (a struct field tagged no-flag
	// whose fields carry long/short tags), "noflaggroup" (the same, also
	// tagged as a group with a namespace)
	Kind string `json:"kind"`
	Init string `json:"init"`
}

func noFlagStructType(long string) reflect.Type {
	var sb strings.Builder
	tagKV(&sb, "long", long)
	tagKV(&sb, "description", "must never become an option")
	return reflect.StructOf([]reflect.StructField{
		{Name: "X", Type: reflect.TypeOf(false), Tag: reflect.StructTag(sb.String())},
		{Name: "Y", Type: reflect.TypeOf(""), Tag: `long:"` + reflect.StructTag(long) + `-y"`},
	})
}

// Tag of the untagged-in-spirit field.
func (p *Plain) Tag() string {
	var sb strings.Builder
	switch p.Kind {
	case "noflag":
		tagKV(&sb, "no-flag", "true")
		tagKV(&sb, "long", p.Init)
	case "noflagstruct":
		tagKV(&sb, "no-flag", "1")
	case "noflaggroup":
		tagKV(&sb, "group", "No Flag Group")
		tagKV(&sb, "namespace", "nf")
		tagKV(&sb, "no-flag", "yes")
	}
	return sb.String()
}

// NoFlagNames lists the long names that fields marked no-flag would declare if
// the mark were ignored (with and without the namespace of a no-flag group).
func (d *Decl) NoFlagNames() []string {
	var r []string
	d.EachCmd(func(c *Cmd, chain []*Cmd) {
		c.G.EachGroup(func(g *Group, parents []*Group) {
			for _, p := range g.Plain {
				switch p.Kind {
				case "noflag":
					r = append(r, p.Init)
				case "noflagstruct":
					r = append(r, p.Init, p.Init+"-y")
				case "noflaggroup":
					r = append(r, p.Init, p.Init+"-y", "nf"+d.NsD()+p.Init)
				}
			}
		})
	})
	return r
}

type Group struct {
	Field        string  `json:"field,omitempty"`
	Desc         string  `json:"desc"`
	LongDesc     string  `json:"longdesc,omitempty"`
	Namespace    string  `json:"ns,omitempty"`
	EnvNamespace string  `json:"envns,omitempty"`
	Hidden       bool    `json:"hidden,omitempty"`
	Options      []Opt   `json:"options,omitempty"`
	Plain        []Plain `json:"plain,omitempty"`
	Groups       []Group `json:"groups,omitempty"`
	RawTag       *string `json:"rawtag,omitempty"`   // tag of the group's struct field, verbatim (nested groups only)
	OptsLast     bool    `json:"optslast,omitempty"` // the option fields are declared after the nested group fields
	Ptr          string  `json:"ptr,omitempty"`      // nested groups: the field is a pointer to the struct: "nil" at setup, or "set"
	// Static: the group's struct is the named, statically declared type
	// NamedGrp (Options then mirror its fields) instead of a runtime-created
	// anonymous struct: several fields of one declaration can share that type
	Static bool `json:"static,omitempty"`
}

// NamedGrp is a named struct type for groups (see Group.Static).
type NamedGrp struct {
	Host string `long:"host" description:"host of the endpoint"`
	Port int    `long:"port" description:"port of the endpoint"`
}

// StaticGroupOptions returns the model of NamedGrp's options with the given ID prefix.
func StaticGroupOptions(idPrefix string) []Opt {
	return []Opt{
		{ID: idPrefix + "h", Field: "Host", Kind: KString, Long: "host", Desc: "host of the endpoint"},
		{ID: idPrefix + "p", Field: "Port", Kind: KInt, Long: "port", Desc: "port of the endpoint"},
	}
}

type PosArg struct {
	Field string `json:"field"`
	Kind  Kind   `json:"kind"`
	Name  string `json:"name,omitempty"`
	Desc  string `json:"desc,omitempty"`
	Req   string `json:"req,omitempty"`
	// RawTag: tag of the positional field, verbatim
	RawTag *string `json:"rawtag,omitempty"`
}

type Positional struct {
	Field    string   `json:"field"`
	Required string   `json:"required,omitempty"`
	Args     []PosArg `json:"args"`
	// Split > 0: the arguments are declared in two positional-args structs of the
	// same command, the first holding Args[:Split]
	Split int `json:"split,omitempty"`
	// Ptr: the positional-args field is a pointer to the struct: "nil" at
	// setup, or "set"
	Ptr string `json:"ptr,omitempty"`
}

type Cmd struct {
	ID       string      `json:"id"`
	Name     string      `json:"name"`
	Field    string      `json:"field,omitempty"`
	Aliases  []string    `json:"aliases,omitempty"`
	Desc     string      `json:"desc,omitempty"`
	LongDesc string      `json:"longdesc,omitempty"`
	SubOpt   bool        `json:"subopt,omitempty"`
	Hidden   bool        `json:"hidden,omitempty"`
	ByTag    bool        `json:"bytag,omitempty"`
	G        Group       `json:"g"`
	Pos      *Positional `json:"pos,omitempty"`
	Cmds     []Cmd       `json:"cmds,omitempty"`
	RawTag   *string     `json:"rawtag,omitempty"` // tag of the command's struct field, verbatim (by-tag commands only)
	Ptr      string      `json:"ptr,omitempty"`    // by-tag commands: the field is a pointer to the struct: "nil" at setup, or "set"
}

type Decl struct {
	Opts       uint    `json:"opts"`
	NsDelim    *string `json:"nsdelim,omitempty"`
	EnvNsDelim *string `json:"envnsdelim,omitempty"`
	Root       Cmd     `json:"root"`
}

func (d *Decl) NsD() string {
	if d.NsDelim != nil {
		return *d.NsDelim
	}
	return "."
}

func (d *Decl) EnvNsD() string {
	if d.EnvNsDelim != nil {
		return *d.EnvNsDelim
	}
	return "_"
}

func (d *Decl) Has(o flags.Options) bool { return flags.Options(d.Opts)&o != 0 }

// ---- traversal helpers ----

// EachGroup visits g and its nested groups depth-first, own first (the order
// the library documents through Groups()/Options()).
func (g *Group) EachGroup(f func(*Group, []*Group)) { g.eachGroup(nil, f) }

func (g *Group) eachGroup(parents []*Group, f func(*Group, []*Group)) {
	f(g, parents)
	np := append(append([]*Group(nil), parents...), g)
	for i := range g.Groups {
		g.Groups[i].eachGroup(np, f)
	}
}

// OptInfo is an option with its resolved context.
type OptInfo struct {
	*Opt
	Cmd     *Cmd
	Chain   []*Cmd   // root .. Cmd
	Groups  []*Group // enclosing groups, outermost first (starting with Cmd.G)
	NsLong  string   // namespaced long name ("" if none)
	EnvKey  string   // namespaced env key ("" if none)
	HiddenG bool     // inside a hidden group
}

func (d *Decl) EachCmd(f func(c *Cmd, chain []*Cmd)) { eachCmd(&d.Root, nil, f) }

func eachCmd(c *Cmd, chain []*Cmd, f func(*Cmd, []*Cmd)) {
	nc := append(append([]*Cmd(nil), chain...), c)
	f(c, nc)
	for i := range c.Cmds {
		eachCmd(&c.Cmds[i], nc, f)
	}
}

// CmdOpts lists the options of one command in library order.
func (d *Decl) CmdOpts(c *Cmd, chain []*Cmd) []*OptInfo {
	var r []*OptInfo
	c.G.EachGroup(func(g *Group, parents []*Group) {
		gs := append(append([]*Group(nil), parents...), g)
		for i := range g.Options {
			o := &g.Options[i]
			oi := &OptInfo{Opt: o, Cmd: c, Chain: chain, Groups: gs}
			if o.Long != "" {
				n := o.Long
				for j := len(gs) - 1; j >= 0; j-- {
					if gs[j].Namespace != "" {
						n = gs[j].Namespace + d.NsD() + n
					}
				}
				// namespaces assigned in code to the enclosing commands
				for j := len(chain) - 2; j >= 0; j-- {
					if ns := chain[j].G.Namespace; ns != "" {
						n = ns + d.NsD() + n
					}
				}
				oi.NsLong = n
			}
			if o.Env != "" {
				n := o.Env
				for j := len(gs) - 1; j >= 0; j-- {
					if gs[j].EnvNamespace != "" {
						n = gs[j].EnvNamespace + d.EnvNsD() + n
					}
				}
				for j := len(chain) - 2; j >= 0; j-- {
					if ns := chain[j].G.EnvNamespace; ns != "" {
						n = ns + d.EnvNsD() + n
					}
				}
				oi.EnvKey = n
			}
			for _, gg := range gs {
				if gg.Hidden {
					oi.HiddenG = true
				}
			}
			r = append(r, oi)
		}
	})
	return r
}

func (d *Decl) AllOpts() []*OptInfo {
	var r []*OptInfo
	d.EachCmd(func(c *Cmd, chain []*Cmd) {
		r = append(r, d.CmdOpts(c, chain)...)
	})
	return r
}

// Display renders an option the way error messages name it.
func (o *OptInfo) Display() string {
	switch {
	case o.Short != "" && o.Long != "":
		return "-" + o.Short + ", --" + o.NsLong
	case o.Short != "":
		return "-" + o.Short
	case o.Long != "":
		return "--" + o.NsLong
	}
	return ""
}

// ---- tag rendering ----

// TagQuoter renders a tag value as a Go string literal; C19 replaces it with a
// spelling that varies the escapes.
var TagQuoter = strconv.Quote

// TagSep renders the separator between two key:"value" pairs.
var TagSep = func() string { return " " }

func tagKV(sb *strings.Builder, k, v string) {
	if sb.Len() > 0 {
		sb.WriteString(TagSep())
	}
	sb.WriteString(k)
	sb.WriteByte(':')
	sb.WriteString(TagQuoter(v))
}

func (o *Opt) Tag() string {
	if o.RawTag != nil {
		return *o.RawTag
	}
	var sb strings.Builder
	if o.Short != "" {
		tagKV(&sb, "short", o.Short)
	}
	if o.Long != "" {
		tagKV(&sb, "long", o.Long)
	}
	if o.Desc != "" && !o.inCode("desc") {
		tagKV(&sb, "description", o.Desc)
	}
	if !o.inCode("default") {
		for _, d := range o.Defaults {
			tagKV(&sb, "default", d)
		}
	}
	if o.Env != "" && !o.inCode("env") {
		tagKV(&sb, "env", o.Env)
	}
	if o.EnvDelim != "" && !o.inCode("env") {
		tagKV(&sb, "env-delim", o.EnvDelim)
	}
	if !o.inCode("optional") {
		if o.Optional != "" {
			tagKV(&sb, "optional", o.Optional)
		}
		for _, d := range o.OptVals {
			tagKV(&sb, "optional-value", d)
		}
	}
	if o.Required != "" && !o.inCode("required") {
		tagKV(&sb, "required", o.Required)
	}
	if o.ValueName != "" && !o.inCode("valuename") {
		tagKV(&sb, "value-name", o.ValueName)
	}
	if o.DefaultMask != "" && !o.inCode("mask") {
		tagKV(&sb, "default-mask", o.DefaultMask)
	}
	if !o.inCode("choices") {
		for _, d := range o.Choices {
			tagKV(&sb, "choice", d)
		}
	}
	if o.Hidden != "" && !o.inCode("hidden") {
		tagKV(&sb, "hidden", o.Hidden)
	}
	if o.Base != 0 {
		tagKV(&sb, "base", strconv.Itoa(o.Base))
	}
	if o.IniName != "" {
		tagKV(&sb, "ini-name", o.IniName)
	}
	if o.NoIni {
		tagKV(&sb, "no-ini", "true")
	}
	if o.Unquote != "" {
		tagKV(&sb, "unquote", o.Unquote)
	}
	return sb.String()
}

// ---- builder ----

type CbEntry struct {
	Opt string      `json:"opt"`
	Arg interface{} `json:"arg"`
}

type ExecEntry struct {
	Cmd     string   `json:"cmd"`
	Args    []string `json:"args"`
	ViaHand bool     `json:"via_handler,omitempty"`
	NilCmd  bool     `json:"nil_cmd,omitempty"`
}

// ErrCallbackSentinel is what a failing option callback returns.
var ErrCallbackSentinel = fmt.Errorf("sentinel: option callback failed")

type ExecCmd struct {
	id string
	b  *Built
}

func (e *ExecCmd) Execute(args []string) error {
	e.b.ExecLog = append(e.b.ExecLog, ExecEntry{Cmd: e.id, Args: append([]string(nil), args...)})
	e.b.ExecArgsRaw = args
	return e.b.ExecErr
}

type Built struct {
	P        *flags.Parser
	D        *Decl
	OptVal   map[string]reflect.Value // opt ID -> field
	PlainVal map[string]reflect.Value // cmdID/groupPath/field -> field
	PlainIni map[string]interface{}   // snapshot of initial plain values
	PosVal   map[string]reflect.Value // cmdID/field -> field
	CbLog    []CbEntry
	ExecLog  []ExecEntry
	ExecErr  error
	// the raw slice handed to Execute (for identity/equality with returned args)
	ExecArgsRaw []string
	Cmds        map[string]*flags.Command // cmd ID -> library command
	Err         error                     // setup error from AddGroup/AddCommand
	// Detached: fields the caller cannot reach after setup, because the
	// library left the pointer-typed field leading to them nil although it
	// registered their options (key: opt ID or positional key; value: why).
	// OptVal/PosVal then refer to a zero value: what the caller sees.
	Detached map[string]string
	// LibOpt: opt ID -> the library's Option, paired by position (library
	// groups and options are kept in declaration order)
	LibOpt  map[string]*flags.Option
	PairErr string
}

func plainFieldType(p *Plain) reflect.Type {
	if p.Kind == "noflagstruct" || p.Kind == "noflaggroup" {
		return noFlagStructType(p.Init)
	}
	return plainType(p.Kind)
}

func plainType(kind string) reflect.Type {
	if strings.HasPrefix(kind, "alias:") {
		return Kind(kind[len("alias:"):]).Type()
	}
	switch kind {
	case "noflag":
		return reflect.TypeOf(int(0))
	case "int":
		return reflect.TypeOf(int(0))
	case "string":
		return reflect.TypeOf("")
	case "[]string":
		return reflect.TypeOf([]string(nil))
	case "ptr":
		return reflect.TypeOf((*struct{ X int })(nil))
	case "map":
		return reflect.TypeOf(map[string]string(nil))
	case "bool":
		return reflect.TypeOf(false)
	}
	panic("plain kind " + kind)
}

func plainInit(p *Plain) interface{} {
	if strings.HasPrefix(p.Kind, "alias:") {
		return reflect.Zero(plainType(p.Kind)).Interface()
	}
	switch p.Kind {
	case "noflag":
		return 5
	case "noflagstruct", "noflaggroup":
		return reflect.Zero(noFlagStructType(p.Init)).Interface()
	case "int":
		n, _ := strconv.Atoi(p.Init)
		return n
	case "string":
		return p.Init
	case "[]string":
		if p.Init == "" {
			return []string(nil)
		}
		return strings.Split(p.Init, ",")
	case "ptr":
		return (*struct{ X int })(nil)
	case "map":
		if p.Init == "" {
			return map[string]string(nil)
		}
		return map[string]string{p.Init: p.Init}
	case "bool":
		return p.Init != ""
	}
	panic("plain kind")
}

type builder struct {
	b *Built
	d *Decl
}

func posStructType(p *Positional) reflect.Type {
	var fs []reflect.StructField
	for _, a := range p.Args {
		var sb strings.Builder
		if a.Name != "" {
			tagKV(&sb, "positional-arg-name", a.Name)
		}
		if a.Desc != "" {
			tagKV(&sb, "description", a.Desc)
		}
		if a.Req != "" {
			tagKV(&sb, "required", a.Req)
		}
		tag := sb.String()
		if a.RawTag != nil {
			tag = *a.RawTag
		}
		fs = append(fs, reflect.StructField{Name: a.Field, Type: a.Kind.Type(), Tag: reflect.StructTag(tag)})
	}
	return reflect.StructOf(fs)
}

type inlineBlock struct {
	from, to int
	mark     string
	field    string
}

// inlineBlocks partitions the options of g into maximal runs of equal Inline mark.
func inlineBlocks(g *Group) []inlineBlock {
	var r []inlineBlock
	for i := range g.Options {
		if g.Options[i].ViaAdd {
			continue
		}
		m := g.Options[i].Inline
		if n := len(r); n > 0 && r[n-1].mark == m && r[n-1].to == i {
			r[n-1].to = i + 1
			continue
		}
		r = append(r, inlineBlock{from: i, to: i + 1, mark: m, field: "In" + g.Options[i].Field})
	}
	return r
}

// groupType builds the struct type for a group. host, when non-nil, is the
// command whose by-tag sub-commands and positional struct live in this struct.
func (bl *builder) groupType(g *Group, host *Cmd) reflect.Type {
	if g.Static {
		return reflect.TypeOf(NamedGrp{})
	}
	var fs []reflect.StructField
	// untagged fields are declared partly before and partly after the options
	for i := range g.Plain {
		if p := &g.Plain[i]; i%2 == 0 {
			fs = append(fs, reflect.StructField{Name: p.Field, Type: plainFieldType(p), Tag: reflect.StructTag(p.Tag())})
		}
	}
	var optFields []reflect.StructField
	for _, blk := range inlineBlocks(g) {
		var bf []reflect.StructField
		for i := blk.from; i < blk.to; i++ {
			o := &g.Options[i]
			bf = append(bf, reflect.StructField{Name: o.Field, Type: o.Kind.Type(), Tag: reflect.StructTag(o.Tag())})
		}
		switch blk.mark {
		case "":
			optFields = append(optFields, bf...)
		case "s":
			optFields = append(optFields, reflect.StructField{Name: blk.field, Type: reflect.StructOf(bf)})
		case "e":
			optFields = append(optFields, reflect.StructField{Name: blk.field, Type: reflect.StructOf(bf), Anonymous: true})
		case "E": // embedded pointer to struct, nil at setup
			optFields = append(optFields, reflect.StructField{Name: blk.field, Type: reflect.PtrTo(reflect.StructOf(bf)), Anonymous: true})
		default: // "p", "P"
			optFields = append(optFields, reflect.StructField{Name: blk.field, Type: reflect.PtrTo(reflect.StructOf(bf))})
		}
	}
	if !g.OptsLast {
		fs = append(fs, optFields...)
	}
	for i := range g.Plain {
		if p := &g.Plain[i]; i%2 == 1 {
			fs = append(fs, reflect.StructField{Name: p.Field, Type: plainFieldType(p), Tag: reflect.StructTag(p.Tag())})
		}
	}
	for i := range g.Groups {
		sg := &g.Groups[i]
		var sb strings.Builder
		tagKV(&sb, "group", sg.Desc)
		if sg.LongDesc != "" {
			tagKV(&sb, "description", sg.LongDesc)
		}
		if sg.Namespace != "" {
			tagKV(&sb, "namespace", sg.Namespace)
		}
		if sg.EnvNamespace != "" {
			tagKV(&sb, "env-namespace", sg.EnvNamespace)
		}
		if sg.Hidden {
			tagKV(&sb, "hidden", "yes")
		}
		tag := sb.String()
		if sg.RawTag != nil {
			tag = *sg.RawTag
		}
		gt := bl.groupType(sg, nil)
		if sg.Ptr != "" {
			gt = reflect.PtrTo(gt)
		}
		fs = append(fs, reflect.StructField{Name: sg.Field, Type: gt, Tag: reflect.StructTag(tag)})
	}
	if g.OptsLast {
		fs = append(fs, optFields...)
	}
	if host != nil {
		if host.Pos != nil {
			var sb strings.Builder
			tagKV(&sb, "positional-args", "yes")
			if host.Pos.Required != "" {
				tagKV(&sb, "required", host.Pos.Required)
			}
			pt := func(p *Positional) reflect.Type {
				if host.Pos.Ptr != "" {
					return reflect.PtrTo(posStructType(p))
				}
				return posStructType(p)
			}
			if sp := host.Pos.Split; sp > 0 && sp < len(host.Pos.Args) {
				p1 := &Positional{Args: host.Pos.Args[:sp]}
				p2 := &Positional{Args: host.Pos.Args[sp:]}
				fs = append(fs, reflect.StructField{Name: host.Pos.Field, Type: pt(p1), Tag: reflect.StructTag(sb.String())})
				fs = append(fs, reflect.StructField{Name: host.Pos.Field + "B", Type: pt(p2), Tag: reflect.StructTag(sb.String())})
			} else {
				fs = append(fs, reflect.StructField{Name: host.Pos.Field, Type: pt(host.Pos), Tag: reflect.StructTag(sb.String())})
			}
		}
		for i := range host.Cmds {
			c := &host.Cmds[i]
			if !c.ByTag {
				continue
			}
			var sb strings.Builder
			tagKV(&sb, "command", c.Name)
			if c.Desc != "" {
				tagKV(&sb, "description", c.Desc)
			}
			if c.LongDesc != "" {
				tagKV(&sb, "long-description", c.LongDesc)
			}
			if c.SubOpt {
				tagKV(&sb, "subcommands-optional", "yes")
			}
			for _, a := range c.Aliases {
				tagKV(&sb, "alias", a)
			}
			if c.Hidden {
				tagKV(&sb, "hidden", "yes")
			}
			tag := sb.String()
			if c.RawTag != nil {
				tag = *c.RawTag
			}
			ct := bl.cmdType(c)
			if c.Ptr != "" {
				ct = reflect.PtrTo(ct)
			}
			fs = append(fs, reflect.StructField{Name: c.Field, Type: ct, Tag: reflect.StructTag(tag)})
		}
	}
	return reflect.StructOf(fs)
}

// cmdType: struct type of a by-tag command: own options, groups, positionals,
// by-tag sub-commands.
func (bl *builder) cmdType(c *Cmd) reflect.Type {
	return bl.groupType(&c.G, c)
}

// throughPtr follows a pointer-typed field f declared with mark ("nil": nil at
// setup, anything else: allocated by the caller). In phase 0 an allocated
// pointer is created and followed, a nil one is not followed. In phase 1 (after
// the library scanned the struct) a nil-declared pointer is followed if the
// library allocated it; if it did not, a detached zero struct stands for what
// the caller can see. behind reports whether the subtree lies behind a
// nil-declared pointer.
func (bl *builder) throughPtr(f reflect.Value, isNil bool, phase int, behind bool, what string) (elem reflect.Value, nowBehind, follow bool, detached string) {
	if !isNil {
		if f.IsNil() {
			f.Set(reflect.New(f.Type().Elem()))
		}
		return f.Elem(), behind, true, ""
	}
	if phase == 0 {
		return reflect.Value{}, false, false, ""
	}
	if f.IsNil() {
		return reflect.New(f.Type().Elem()).Elem(), true, true, what + " was nil at setup and is still nil afterwards"
	}
	return f.Elem(), true, true, ""
}

// bindGroup records (and initialises) the fields of group g living in struct
// value v. It runs twice: phase 0 before the struct is handed to the library
// (everything not behind a nil pointer), phase 1 afterwards (the rest).
func (bl *builder) bindGroup(cmdID, path string, g *Group, v reflect.Value, host *Cmd, phase int, behind bool, detached string) {
	b := bl.b
	mine := behind == (phase == 1)
	if mine {
		for i := range g.Plain {
			p := &g.Plain[i]
			f := v.FieldByName(p.Field)
			iv := plainInit(p)
			f.Set(reflect.ValueOf(iv))
			key := cmdID + "/" + path + "/" + p.Field
			b.PlainVal[key] = f
			b.PlainIni[key] = iv
		}
	}
	for _, blk := range inlineBlocks(g) {
		bv, bBehind, bDet := v, behind, detached
		switch blk.mark {
		case "":
		case "s", "e":
			bv = v.FieldByName(blk.field)
		default:
			e, nb, follow, det := bl.throughPtr(v.FieldByName(blk.field), blk.mark == "p" || blk.mark == "E", phase, behind, "untagged pointer field "+blk.field)
			if !follow {
				continue
			}
			bv, bBehind = e, nb
			if det != "" {
				bDet = det
			}
		}
		if bBehind != (phase == 1) {
			continue
		}
		for i := blk.from; i < blk.to; i++ {
			o := &g.Options[i]
			f := bv.FieldByName(o.Field)
			b.OptVal[o.ID] = f
			if bDet != "" {
				b.Detached[o.ID] = bDet
			}
			bl.initOpt(o, f)
		}
	}
	// alias plain fields: an untagged slice field sharing the backing array of a
	// pre-populated slice option (Init = option ID); the snapshot is a deep copy
	if mine {
		for i := range g.Plain {
			p := &g.Plain[i]
			if !strings.HasPrefix(p.Kind, "alias:") {
				continue
			}
			of, ok := b.OptVal[p.Init]
			if !ok || of.Kind() != reflect.Slice || of.Len() == 0 {
				continue
			}
			f := v.FieldByName(p.Field)
			f.Set(of)
			cp := reflect.MakeSlice(of.Type(), of.Len(), of.Len())
			reflect.Copy(cp, of)
			b.PlainIni[cmdID+"/"+path+"/"+p.Field] = cp.Interface()
		}
	}
	for i := range g.Groups {
		sg := &g.Groups[i]
		gv, gBehind, gDet := v.FieldByName(sg.Field), behind, detached
		if sg.Ptr != "" {
			e, nb, follow, det := bl.throughPtr(gv, sg.Ptr == "nil", phase, behind, "pointer field "+sg.Field+" of group "+sg.Desc)
			if !follow {
				continue
			}
			gv, gBehind = e, nb
			if det != "" {
				gDet = det
			}
		}
		bl.bindGroup(cmdID, path+"."+sg.Field, sg, gv, nil, phase, gBehind, gDet)
	}
	if host != nil {
		if host.Pos != nil {
			for i, a := range host.Pos.Args {
				fname := host.Pos.Field
				if sp := host.Pos.Split; sp > 0 && sp < len(host.Pos.Args) && i >= sp {
					fname += "B"
				}
				pv, pBehind, pDet := v.FieldByName(fname), behind, detached
				if host.Pos.Ptr != "" {
					e, nb, follow, det := bl.throughPtr(pv, host.Pos.Ptr == "nil", phase, behind, "pointer field "+fname+" (positional-args)")
					if !follow {
						continue
					}
					pv, pBehind = e, nb
					if det != "" {
						pDet = det
					}
				}
				if pBehind != (phase == 1) {
					continue
				}
				b.PosVal[host.ID+"/"+a.Field] = pv.FieldByName(a.Field)
				if pDet != "" {
					b.Detached[host.ID+"/"+a.Field] = pDet
				}
			}
		}
		for i := range host.Cmds {
			c := &host.Cmds[i]
			if !c.ByTag {
				continue
			}
			cv, cBehind, cDet := v.FieldByName(c.Field), behind, detached
			if c.Ptr != "" {
				e, nb, follow, det := bl.throughPtr(cv, c.Ptr == "nil", phase, behind, "pointer field "+c.Field+" of command "+c.Name)
				if !follow {
					continue
				}
				cv, cBehind = e, nb
				if det != "" {
					cDet = det
				}
			}
			bl.bindGroup(c.ID, "", &c.G, cv, c, phase, cBehind, cDet)
		}
	}
}

func (bl *builder) initOpt(o *Opt, f reflect.Value) {
	b := bl.b
	id := o.ID
	switch o.Kind {
	case KFunc0:
		f.Set(reflect.ValueOf(func() { b.CbLog = append(b.CbLog, CbEntry{Opt: id}) }))
		return
	case KFuncS:
		f.Set(reflect.ValueOf(func(s string) { b.CbLog = append(b.CbLog, CbEntry{Opt: id, Arg: s}) }))
		return
	case KFuncI:
		f.Set(reflect.ValueOf(func(n int) { b.CbLog = append(b.CbLog, CbEntry{Opt: id, Arg: n}) }))
		return
	case KFuncSS:
		f.Set(reflect.ValueOf(func(ss []string) {
			b.CbLog = append(b.CbLog, CbEntry{Opt: id, Arg: append([]string(nil), ss...)})
		}))
		return
	case KFunc0E:
		fail := o.CbErr
		f.Set(reflect.ValueOf(func() error {
			b.CbLog = append(b.CbLog, CbEntry{Opt: id})
			if fail {
				return ErrCallbackSentinel
			}
			return nil
		}))
		return
	case KFuncSE:
		fail := o.CbErr
		f.Set(reflect.ValueOf(func(s string) error {
			b.CbLog = append(b.CbLog, CbEntry{Opt: id, Arg: s})
			if fail {
				return ErrCallbackSentinel
			}
			return nil
		}))
		return
	}
	if o.Initial == nil {
		return
	}
	v, err := RefValue(o.Kind, o.Base, o.Initial)
	if err != nil {
		panic(fmt.Sprintf("bad initial %q for %s: %v", o.Initial, o.Kind, err))
	}
	f.Set(reflect.ValueOf(v))
}

// Build assembles a parser for the declaration. A setup error (AddGroup /
// AddCommand) is returned in Built.Err; P is then still usable for the groups
// added before.
func Build(d *Decl) *Built {
	b := &Built{
		D:        d,
		OptVal:   map[string]reflect.Value{},
		PlainVal: map[string]reflect.Value{},
		PlainIni: map[string]interface{}{},
		PosVal:   map[string]reflect.Value{},
		Cmds:     map[string]*flags.Command{},
		Detached: map[string]string{},
		LibOpt:   map[string]*flags.Option{},
	}
	bl := &builder{b: b, d: d}
	p := flags.NewNamedParser(d.Root.Name, flags.Options(d.Opts))
	if d.NsDelim != nil {
		p.NamespaceDelimiter = *d.NsDelim
	}
	if d.EnvNsDelim != nil {
		p.EnvNamespaceDelimiter = *d.EnvNsDelim
	}
	b.P = p
	p.SubcommandsOptional = d.Root.SubOpt
	p.ShortDescription = d.Root.Desc
	p.LongDescription = d.Root.LongDesc
	b.Cmds[d.Root.ID] = p.Command
	bl.attach(p.Command, &d.Root)
	if b.Err == nil {
		bl.pair()
		bl.assignInCode()
	}
	// namespaces of commands can only be assigned in code
	p.Namespace, p.EnvNamespace = d.Root.G.Namespace, d.Root.G.EnvNamespace
	d.EachCmd(func(c *Cmd, chain []*Cmd) {
		if lc := b.Cmds[c.ID]; lc != nil && c != &d.Root {
			lc.Namespace, lc.EnvNamespace = c.G.Namespace, c.G.EnvNamespace
		}
	})
	return b
}

// attach adds groups (AddGroup) and programmatic sub-commands (AddCommand) of
// the root or of a programmatic command. By-tag sub-commands and positionals
// of c live in the first group's struct.
func (bl *builder) attach(lc *flags.Command, c *Cmd) {
	b := bl.b
	if b.Err != nil {
		return
	}
	for i := range c.G.Groups {
		g := &c.G.Groups[i]
		var host *Cmd
		if i == 0 {
			host = c
		}
		t := bl.groupType(g, host)
		v := reflect.New(t)
		bl.bindGroup(c.ID, g.Field, g, v.Elem(), host, 0, false, "")
		lg, err := lc.AddGroup(g.Desc, g.LongDesc, v.Interface())
		if err != nil {
			b.Err = err
			return
		}
		bl.bindGroup(c.ID, g.Field, g, v.Elem(), host, 1, false, "")
		lg.Namespace = g.Namespace
		lg.EnvNamespace = g.EnvNamespace
		lg.Hidden = g.Hidden
	}
	for i := range c.Cmds {
		sc := &c.Cmds[i]
		if sc.ByTag {
			continue
		}
		lsc, err := lc.AddCommand(sc.Name, sc.Desc, sc.LongDesc, &ExecCmd{id: sc.ID, b: b})
		if err != nil {
			b.Err = err
			return
		}
		lsc.Aliases = sc.Aliases
		lsc.SubcommandsOptional = sc.SubOpt
		lsc.Hidden = sc.Hidden
		bl.attach(lsc, sc)
		if b.Err != nil {
			return
		}
	}
	// map library commands for by-tag children (and their descendants)
	bl.mapCmds(lc, c)
}

func (bl *builder) mapCmds(lc *flags.Command, c *Cmd) {
	for i := range c.Cmds {
		sc := &c.Cmds[i]
		for _, l := range lc.Commands() {
			if l.Name == sc.Name {
				bl.b.Cmds[sc.ID] = l
				if sc.ByTag {
					bl.mapCmds(l, sc)
				}
				break
			}
		}
	}
}

// ActiveChain returns the names of the active commands after a parse.
func (b *Built) ActiveChain() []string {
	var r []string
	for c := b.P.Active; c != nil; c = c.Active {
		r = append(r, c.Name)
	}
	return r
}

// pair matches the model's options with the library's, by position.
func (bl *builder) pair() {
	b := bl.b
	var pairGroup func(lg *flags.Group, g *Group)
	pairGroup = func(lg *flags.Group, g *Group) {
		for i := range g.Options {
			o := &g.Options[i]
			if !o.ViaAdd {
				continue
			}
			lo := &flags.Option{Description: o.Desc, LongName: o.Long, Default: append([]string(nil), o.Defaults...),
				EnvDefaultKey: o.Env, EnvDefaultDelim: o.EnvDelim, OptionalArgument: o.Optional != "", OptionalValue: append([]string(nil), o.OptVals...),
				Required: o.Required != "", ValueName: o.ValueName, DefaultMask: o.DefaultMask, Choices: append([]string(nil), o.Choices...), Hidden: o.Hidden != ""}
			if o.Short != "" {
				lo.ShortName = []rune(o.Short)[0]
			}
			if len(lo.Default) == 0 {
				lo.Default = nil
			}
			v := reflect.New(o.Kind.Type())
			b.OptVal[o.ID] = v.Elem()
			bl.initOpt(o, v.Elem())
			lg.AddOption(lo, v.Interface())
		}
		lo := lg.Options()
		if len(lo) != len(g.Options) {
			b.PairErr = fmt.Sprintf("group %q: library has %d options, declaration %d", g.Desc, len(lo), len(g.Options))
			return
		}
		for i := range g.Options {
			b.LibOpt[g.Options[i].ID] = lo[i]
		}
		lgs := lg.Groups()
		if len(lgs) != len(g.Groups) {
			b.PairErr = fmt.Sprintf("group %q: library has %d sub-groups, declaration %d", g.Desc, len(lgs), len(g.Groups))
			return
		}
		for i := range g.Groups {
			pairGroup(lgs[i], &g.Groups[i])
		}
	}
	bl.d.EachCmd(func(c *Cmd, chain []*Cmd) {
		lc := b.Cmds[c.ID]
		if lc == nil {
			return
		}
		pairGroup(lc.Group, &c.G)
	})
}

func (bl *builder) assignInCode() {
	b := bl.b
	for _, o := range bl.d.AllOpts() {
		attrs := o.InCode
		static := o.Groups[len(o.Groups)-1].Static
		if static {
			// the struct type is declared statically: whatever the model says
			// beyond its tags is assigned in code (names included)
			attrs = []string{"required", "default", "choices", "hidden", "env", "optional", "desc", "valuename", "mask", "names"}
		}
		if len(attrs) == 0 {
			continue
		}
		lo := b.LibOpt[o.ID]
		if lo == nil {
			b.PairErr += fmt.Sprintf(" (option %s has attributes to assign in code but was not found)", o.ID)
			continue
		}
		for _, a := range attrs {
			switch a {
			case "names":
				lo.LongName, lo.ShortName = o.Long, 0
				if o.Short != "" {
					lo.ShortName = []rune(o.Short)[0]
				}
			case "required":
				lo.Required = o.Required != ""
			case "default":
				lo.Default = append([]string(nil), o.Defaults...)
				if len(lo.Default) == 0 {
					lo.Default = nil
				}
			case "choices":
				lo.Choices = append([]string(nil), o.Choices...)
			case "hidden":
				lo.Hidden = o.Hidden != ""
			case "env":
				lo.EnvDefaultKey, lo.EnvDefaultDelim = o.Env, o.EnvDelim
			case "optional":
				lo.OptionalArgument = o.Optional != ""
				lo.OptionalValue = append([]string(nil), o.OptVals...)
			case "desc":
				lo.Description = o.Desc
			case "valuename":
				lo.ValueName = o.ValueName
			case "mask":
				lo.DefaultMask = o.DefaultMask
			}
		}
	}
}

// DupNamesInCommand reports two options of one command sharing a namespaced long
// name or a short name. The library accepts that when they come from separately
// added groups, but which of the two a name then denotes is not specified
// anywhere; the generators keep names unique per command.
func (d *Decl) DupNamesInCommand() bool {
	dup := false
	d.EachCmd(func(c *Cmd, chain []*Cmd) {
		longs, shorts := map[string]bool{}, map[string]bool{}
		for _, o := range d.CmdOpts(c, chain) {
			if o.NsLong != "" {
				if longs[o.NsLong] {
					dup = true
				}
				longs[o.NsLong] = true
			}
			if o.Short != "" {
				if shorts[o.Short] {
					dup = true
				}
				shorts[o.Short] = true
			}
		}
	})
	return dup
}
