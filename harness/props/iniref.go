package props

// INI side of the reference semantics (R rule 9) and helpers to run the real
// INI reader/writer.

import (
	"strconv"
	"strings"

	flags "github.com/jessevdk/go-flags"
)

// IniLine is one logical entry of an INI file.
type IniLine struct {
	Section string `json:"section"` // as spelled in the header ("" = before any header)
	Key     string `json:"key"`
	Value   string `json:"value"` // raw text right of '=' (may be a quoted literal)
}

// iniScope: the options addressed by a section name, in declaration order;
// ok=false when the section denotes nothing.
func iniScope(d *Decl, section string) ([]*OptInfo, bool) {
	if section == "" {
		return d.CmdOpts(&d.Root, []*Cmd{&d.Root}), true
	}
	return iniScopeCmd(d, &d.Root, []*Cmd{&d.Root}, section)
}

func groupOpts(d *Decl, c *Cmd, chain []*Cmd, g *Group) []*OptInfo {
	var r []*OptInfo
	for _, o := range d.CmdOpts(c, chain) {
		for _, og := range o.Groups {
			if og == g {
				r = append(r, o)
				break
			}
		}
	}
	return r
}

func iniScopeCmd(d *Decl, c *Cmd, chain []*Cmd, name string) ([]*OptInfo, bool) {
	// group description, case-insensitive, at any nesting depth below the
	// command's own group
	var found *Group
	c.G.EachGroup(func(g *Group, parents []*Group) {
		if g != &c.G && strings.EqualFold(g.Desc, name) {
			found = g
		}
	})
	if found != nil {
		return groupOpts(d, c, chain, found), true
	}
	for i := range c.Cmds {
		sc := &c.Cmds[i]
		nc := append(append([]*Cmd{}, chain...), sc)
		if name == sc.Name {
			return d.CmdOpts(sc, nc), true
		}
		if strings.HasPrefix(name, sc.Name+".") {
			if r, ok := iniScopeCmd(d, sc, nc, name[len(sc.Name)+1:]); ok {
				return r, true
			}
		}
	}
	return nil, false
}

// iniResolve: documented name resolution: ini-name (case-insensitive), field
// name, namespaced long name, short name - in that order of preference; among
// equals the first declared.
func iniResolve(scope []*OptInfo, key string) *OptInfo {
	if key == "" {
		return nil
	}
	for prio := 0; prio < 4; prio++ {
		for _, o := range scope {
			switch prio {
			case 0:
				if o.IniName != "" && strings.EqualFold(o.IniName, key) {
					return o
				}
			case 1:
				if o.Field != "" && o.Field == key {
					return o
				}
			case 2:
				if o.NsLong != "" && o.NsLong == key {
					return o
				}
			case 3:
				if o.Short != "" && o.Short == key {
					return o
				}
			}
		}
	}
	return nil
}

// IniValueText decodes the raw right-hand side the way the format is
// documented: surrounding blanks ignored, a leading double quote starts a Go
// string literal. ok=false for bad quoting.
func IniValueText(raw string) (string, bool) {
	v := strings.TrimSpace(raw)
	if len(v) > 0 && v[0] == '"' {
		u, err := strconv.Unquote(v)
		if err != nil {
			return "", false
		}
		return u, true
	}
	return v, true
}

type IniRefResult struct {
	Touched map[string][]interface{} // opt ID -> elements in order
	Opts    map[string]*OptInfo
	// first problem, if any
	ErrKind string // "", "unknown-section", "unknown-key", "bad-quoting", "bad-value"
	ErrLine int    // index into lines
}

// RefIni applies entries in file order (normal mode).
func RefIni(d *Decl, lines []IniLine) *IniRefResult {
	res := &IniRefResult{Touched: map[string][]interface{}{}, Opts: map[string]*OptInfo{}}
	ignore := d.Has(flags.IgnoreUnknown)
	for i, l := range lines {
		scope, ok := iniScope(d, l.Section)
		if !ok {
			if ignore {
				continue
			}
			res.ErrKind, res.ErrLine = "unknown-section", i
			return res
		}
		o := iniResolve(scope, l.Key)
		if o != nil && o.NoIni {
			o = nil
		}
		if o == nil {
			if ignore {
				continue
			}
			res.ErrKind, res.ErrLine = "unknown-key", i
			return res
		}
		text, ok := IniValueText(l.Value)
		if !ok {
			res.ErrKind, res.ErrLine = "bad-quoting", i
			return res
		}
		var elem interface{}
		ver := Accept
		switch {
		case o.Kind == KFunc0:
			// a callback without parameter cannot take a value
			if text != "" {
				ver = Reject
			}
		case o.Kind.IsFlag():
			if text == "" {
				elem = true
			} else {
				elem, ver = RefScalar(KBool, 0, text)
			}
		case o.Kind.IsMap():
			// key:"quoted value" is decoded once more
			if j := strings.Index(text, ":"); j >= 0 && len(text) > j+1 && text[j+1] == '"' {
				u, err := strconv.Unquote(text[j+1:])
				if err != nil {
					res.ErrKind, res.ErrLine = "bad-quoting", i
					return res
				}
				text = text[:j+1] + u
			}
			elem, ver = RefOne(o.Kind, o.Base, text)
		default:
			elem, ver = RefOne(o.Kind, o.Base, text)
		}
		if len(o.Choices) > 0 && !o.Kind.IsFlag() {
			found := false
			for _, ch := range o.Choices {
				if ch == text {
					found = true
				}
			}
			if !found {
				ver = Reject
			}
		}
		if ver != Accept {
			res.ErrKind, res.ErrLine = "bad-value", i
			if ver == DontCare {
				res.ErrKind = "dontcare"
			}
			return res
		}
		res.Opts[o.ID] = o
		res.Touched[o.ID] = append(res.Touched[o.ID], elem)
	}
	return res
}

// IniFinal: the field value after reading, from the collected elements.
func IniFinal(o *OptInfo, elems []interface{}) interface{} {
	if o.Kind.IsFlag() {
		switch o.Kind {
		case KBool:
			return elems[len(elems)-1].(bool)
		case KToggle:
			return Toggle(elems[len(elems)-1].(bool))
		case KBoolPtr:
			b := elems[len(elems)-1].(bool)
			return &b
		case KBoolSlice:
			var s []bool
			for _, e := range elems {
				s = append(s, e.(bool))
			}
			return s
		}
	}
	return Assemble(o.Kind, elems)
}

// ---- real INI reader ----

type IniRun struct {
	B     *Built
	Err   error
	Panic string
}

func RunIniRead(d *Decl, text string, asDefaults bool) *IniRun {
	defer guardCall("IniParser.Parse")()
	r := &IniRun{}
	if pm := Safely(func() { r.B = Build(d) }); pm != "" {
		r.Panic = "setup: " + pm
		return r
	}
	if r.B.Err != nil {
		r.Err = r.B.Err
		return r
	}
	ip := flags.NewIniParser(r.B.P)
	ip.ParseAsDefaults = asDefaults
	r.Panic = Safely(func() { r.Err = ip.Parse(strings.NewReader(text)) })
	return r
}

// RenderIni writes entries as text, emitting a header whenever the section
// spelling changes. Returns the text and, per entry, its 1-based line number.
func RenderIni(lines []IniLine) (string, []int) {
	var sb strings.Builder
	var nums []int
	cur := ""
	n := 0
	for _, l := range lines {
		if l.Section != cur {
			sb.WriteString("[" + l.Section + "]\n")
			n++
			cur = l.Section
		}
		sb.WriteString(l.Key + " = " + l.Value + "\n")
		n++
		nums = append(nums, n)
	}
	return sb.String(), nums
}

// iniRawValue renders a value text as an INI right-hand side: raw when that is
// lossless, otherwise as a quoted literal.
func iniRawValue(text string, forceQuote bool) string {
	safe := text == strings.TrimSpace(text) && !strings.HasPrefix(text, "\"") && !strings.ContainsAny(text, "\n\r") && !forceQuote
	if safe {
		return text
	}
	return strconv.Quote(text)
}

// iniValueFor renders the INI right-hand side denoting value text v for option o.
func iniValueFor(o *OptInfo, v string, forceQuote bool) string {
	if o.Kind.IsMap() {
		k, val := v, ""
		hasColon := false
		if j := strings.Index(v, ":"); j >= 0 {
			k, val, hasColon = v[:j], v[j+1:], true
		}
		if !hasColon {
			return iniRawValue(v, false)
		}
		if k != strings.TrimSpace(k) || strings.HasPrefix(k, "\"") || strings.ContainsAny(k, "\n\r") {
			// such keys have no per-part spelling; quote the whole pair when possible
			if !strings.HasPrefix(val, "\"") {
				return strconv.Quote(v)
			}
		}
		safe := val == strings.TrimSpace(val) && !strings.HasPrefix(val, "\"") && !strings.ContainsAny(val, "\n\r") && !forceQuote && val != ""
		if safe || val == "" && !forceQuote {
			return k + ":" + val
		}
		return k + ":" + strconv.Quote(val)
	}
	return iniRawValue(v, forceQuote)
}

// iniKeyOf is the key under which an entry for o is normally written: its field
// name or, for an option added with AddOption (it has none), its namespaced
// long name or its short name.
func iniKeyOf(o *OptInfo) string {
	switch {
	case o.Field != "":
		return o.Field
	case o.NsLong != "":
		return o.NsLong
	}
	return o.Short
}
