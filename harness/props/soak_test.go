package props

import (
	"fmt"
	"testing"

	flags "github.com/jessevdk/go-flags"
	"pgregory.net/rapid"
)

// Development soak: R against the real parser on every aspect.
var soakCfg = &GenCfg{Depth: 3, Fanout: 3, MaxOpts: 4, MaxGroups: 2, NestGroups: 2, Kinds: AllKinds, Pos: true, Ns: true, EnvNs: true,
	Req: 15, Choices: true, Defaults: true, Env: false, OptArg: true, Hidden: true, Desc: true, Plain: true, Initial: true, Bases: true,
	Unquote: true, Aliases: true, SubOpt: 30, NonASCII: true, PosReq: true, NsDelims: []string{"-", "::", ""},
	ParserOpts: []flags.Options{flags.HelpFlag, flags.PassDoubleDash, flags.IgnoreUnknown, flags.PassAfterNonOption}}

var soakArgv = &ArgvCfg{MaxItems: 3, WOpt: 45, WCluster: 8, WCmd: 4, WPlain: 8, WTerm: 3, WUnknown: 5, WJunk: 3, WRepeat: 22, BadVal: 6, Quote: 12}

func genParseCase(t *rapid.T, dc *GenCfg, ac *ArgvCfg) *ParseCase {
	d := genDecl(t, dc)
	return &ParseCase{D: d, Args: genArgv(t, d, ac)}
}

var _ = Register("SOAK", func() interface{} { return new(ParseCase) }, func(c interface{}) string {
	m, _ := CompareAll(c.(*ParseCase), AAll)
	return m
})

func TestSoak(t *testing.T) {
	runProp(t, "SOAK", func(t *rapid.T) *ParseCase {
		c := genParseCase(t, soakCfg, soakArgv)
		if rapid.IntRange(0, 9).Draw(t, "handler") == 0 {
			c.Handler = &HandlerSpec{Mode: rapid.SampledFrom([]string{"same", "drop1", "replace", "error"}).Draw(t, "hmode"), Repl: []string{"w", "-Z", "x"}}
		}
		c.CmdHandler = rapid.Bool().Draw(t, "cmdhandler")
		return c
	}, func(c *ParseCase) string {
		m, out := CompareAll(c, AAll)
		if out.Skip != "" {
			S("SOAK").Label("skip: " + out.Skip)
		} else if out.Ref.Err != nil {
			S("SOAK").Label("err: " + out.Ref.Err.Why[:min(len(out.Ref.Err.Why), 30)])
		} else {
			n := 0
			for _, v := range out.Ref.Occ {
				n += v
			}
			S("SOAK").Label(fmt.Sprintf("ok: depth %d", len(out.Ref.Chain)))
			S("SOAK").Label(fmt.Sprintf("ok: occ %d", min(n, 5)))
			if len(out.Ref.Rest) > 0 {
				S("SOAK").Label("ok: rest")
			}
			if len(out.Ref.PosBound) > 0 {
				S("SOAK").Label("ok: pos")
			}
		}
		return m
	})
}
