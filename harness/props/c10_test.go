package props

import (
	"fmt"
	"strings"
	"testing"

	flags "github.com/jessevdk/go-flags"
	"pgregory.net/rapid"
)

// C10: positional arguments bind in declaration order.

var c10Decl = &GenCfg{Depth: 2, Fanout: 2, MaxOpts: 3, MaxGroups: 1, NestGroups: 1, Kinds: []Kind{KBool, KString, KInt, KStringSlice, KBoolSlice, KFloat64, KUpper, KTri},
	Pos: true, PosPct: 90, PosSplit: true, Req: 0, OptArg: true, Aliases: true, SubOpt: 75, NonASCII: true,
	ParserOpts: []flags.Options{flags.PassDoubleDash, flags.PassDoubleDash, flags.IgnoreUnknown}}

var c10Argv = &ArgvCfg{MaxItems: 2, WOpt: 40, WCluster: 6, WCmd: 3, WPlain: 35, WTerm: 10, WUnknown: 2, WJunk: 3, WRepeat: 6, BadVal: 3, Quote: 5, TermPos: 25, TypedPos: 97}

var _ = Register("C10", func() interface{} { return new(ParseCase) }, func(c interface{}) string { return c10Oracle(c.(*ParseCase)) })

var c10ArgvUnknown = func() *ArgvCfg { a := *c10Argv; a.WUnknown = 14; return &a }()

func genC10(t *rapid.T) *ParseCase {
	if rapid.IntRange(0, 3).Draw(t, "withHandler") != 0 {
		return genParseCase(t, c10Decl, c10Argv)
	}
	// an UnknownOptionHandler that keeps the arguments as they are: unknown
	// options between positional tokens must not disturb the binding
	c := genParseCase(t, c10Decl, c10ArgvUnknown)
	if !c.D.Has(flags.IgnoreUnknown) {
		c.Handler = &HandlerSpec{Mode: "same"}
	}
	return c
}

func c10Oracle(c *ParseCase) string {
	st := S("C10")
	ref := Ref(&RefInput{D: c.D, Args: c.Args, Handler: c.Handler})
	if ref.Undetermined != "" {
		st.Label("skip: " + ref.Undetermined)
		return ""
	}
	rr := RunReal(c.D, c.Args, nil, &RealCfg{Handler: c.Handler})
	if c.Handler != nil && len(ref.Handler) > 0 {
		st.Label("unknown-option handler called between positionals")
	}
	if rr.Panic != "" || rr.SetupErr != nil {
		st.Label("skip: panic or setup error")
		return ""
	}
	if rr.Err == nil && ref.Err != nil && strings.HasPrefix(ref.Err.Why, "positional conversion of ") {
		// a token that cannot be converted to its field's type can neither be
		// bound nor skipped nor handed on: the parse cannot succeed
		return fmt.Sprintf("the parse succeeded although a plain token cannot be converted to the type of the positional field it falls on (%s); positionals %v, remaining %q", ref.Err.Why, showPos(rr), rr.Rest)
	}
	if rr.Err != nil || ref.Err != nil {
		st.Label("skip: not a successful parse")
		if ref.Err != nil {
			st.Label("  why: " + ref.Err.Why[:min(45, len(ref.Err.Why))])
		}
		return ""
	}
	st.Label("success")
	if m := CheckPositionals(rr, ref); m != "" {
		return m
	}
	if !strSliceEq(rr.Rest, ref.Rest) {
		return fmt.Sprintf("tokens beyond the declared positionals: remaining %q, expected %q", rr.Rest, ref.Rest)
	}
	// classification
	nb := len(ref.PosBound)
	st.Label(fmt.Sprintf("bound tokens: %d", min(nb, 5)))
	optBetween, afterTerm, overflow := false, false, false
	seenPos, seenTerm := false, false
	pendingOpt := false
	for i, cl := range ref.Class {
		switch cl {
		case TcPositional:
			if seenPos && pendingOpt {
				optBetween = true
			}
			if seenTerm {
				afterTerm = true
				if isOptSyntax(c.Args[i]) {
					st.Label("option-looking token bound after terminator")
				}
			}
			seenPos = true
			pendingOpt = false
		case TcOption:
			if seenPos {
				pendingOpt = true
			}
		case TcTerminator:
			seenTerm = true
		case TcRest:
			if nb > 0 {
				overflow = true
			}
		}
	}
	for k, v := range map[string]bool{"option between two positionals": optBetween, "positional after terminator": afterTerm, "overflow into remaining args": overflow} {
		if v {
			st.Label(k)
		}
	}
	if nb >= 2 && (optBetween || afterTerm || overflow) {
		st.NonTrivial(c.Key(), map[string]interface{}{"args": c.Args, "bound": ref.PosBound, "rest": ref.Rest})
	}
	return ""
}

func TestC10(t *testing.T) {
	S("C10").Rule = "positional layouts (0-3 fields of string/int/float64/custom type + optional trailing slice) on the parser and on commands x argv interleaving typed plain tokens with options, clusters and the terminator followed by option-looking tokens; (in a quarter of the cases unknown options, handled by an UnknownOptionHandler or ignored, in between); oracle: R binding (i-th plain token -> i-th field converted, slice absorbs the rest, overflow -> remaining args). non-trivial: >= 2 tokens bound and (option between two positionals | binding after '--' | overflow); distinct by (declaration signature, argv)"
	runProp(t, "C10", genC10, c10Oracle)
}

func showPos(rr *RealResult) string {
	var ks []string
	for k := range rr.B.PosVal {
		ks = append(ks, k)
	}
	sortStrings(ks)
	var sb strings.Builder
	for _, k := range ks {
		sb.WriteString(k + "=" + ShowVal(rr.B.PosVal[k].Interface()) + " ")
	}
	return sb.String()
}
