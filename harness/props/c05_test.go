package props

import (
	"fmt"
	"sort"
	"strings"
	"testing"

	flags "github.com/jessevdk/go-flags"
	"pgregory.net/rapid"
)

// C05: defaults and value-source precedence.

type C05Case struct {
	D     *Decl             `json:"decl"`
	Env   map[string]string `json:"env"`
	Lines []IniLine         `json:"ini"`
	Args  []string          `json:"args"`
	Mode  string            `json:"mode"` // "ini-normal-before" | "ini-asdefaults-before" | "ini-asdefaults-after"
	// FaultyTail: the INI text ends with an entry naming no option, so the read
	// (done before the command line) fails after the valid entries; the program
	// goes on to parse the command line
	FaultyTail bool `json:"faulty_tail,omitempty"`
}

var _ = Register("C05", func() interface{} { return new(C05Case) }, func(c interface{}) string { return c05Oracle(c.(*C05Case)) })

var c05Decl = &GenCfg{Depth: 1, Fanout: 2, SubOpt: 100, CmdPct: 50, Aliases: true, MaxOpts: 3, MaxGroups: 2, NestGroups: 4, Kinds: append(append([]Kind{}, AllArgKinds...), KBool, KBoolSlice, KBoolPtr),
	Ns: true, EnvNs: true, Req: 0, Choices: true, Defaults: true, Initial: true, Bases: true, NonASCII: true, NsDelims: []string{"-"}, FieldPool: true, InCode: 15, ViaAdd: 5}

func genC05(t *rapid.T) *C05Case {
	d := genDecl(t, c05Decl)
	// env keys on about half of the options
	n := 0
	d.Root.SubOpt = true
	d.EachCmd(func(cm *Cmd, _ []*Cmd) {
		cm.G.EachGroup(func(g *Group, _ []*Group) {
			prevEnv := ""
			for i := range g.Options {
				o := &g.Options[i]
				n++
				if rapid.Bool().Draw(t, "hasEnv") {
					o.Env = fmt.Sprintf("VPC05_%d", n)
					// two options of one group reading the same variable
					// (possibly with different delimiters)
					if prevEnv != "" && rapid.IntRange(0, 3).Draw(t, "sharedEnv") == 0 {
						o.Env = prevEnv
					}
					prevEnv = o.Env
					if o.Kind.IsMulti() {
						o.EnvDelim = rapid.SampledFrom([]string{"", ",", "::"}).Draw(t, "envDelim")
					}
				}
				if len(o.Defaults) == 0 && !o.Kind.IsFlag() && o.Kind != KTri && rapid.Bool().Draw(t, "moreDefaults") {
					k := 1
					if o.Kind.IsMulti() {
						k = rapid.IntRange(1, 3).Draw(t, "ndef")
					}
					for j := 0; j < k; j++ {
						if len(o.Choices) > 0 {
							o.Defaults = append(o.Defaults, rapid.SampledFrom(o.Choices).Draw(t, "defChoice"))
						} else {
							o.Defaults = append(o.Defaults, genValidText(t, o.Kind, o.Base))
						}
					}
				}
			}
		})
	})
	c := &C05Case{D: d, Env: map[string]string{}}
	c.Mode = rapid.SampledFrom([]string{"ini-normal-before", "ini-asdefaults-before", "ini-asdefaults-after", "ini-asdefaults-before-and-after"}).Draw(t, "mode")
	valFor := func(o *OptInfo, label string) string {
		if len(o.Choices) > 0 {
			return rapid.SampledFrom(o.Choices).Draw(t, label)
		}
		return genValidText(t, o.Kind, o.Base)
	}
	for _, o := range d.AllOpts() {
		// environment: unset / set / set-empty
		if o.EnvKey != "" {
			switch rapid.IntRange(0, 3).Draw(t, "envState") {
			case 1, 2:
				if o.Kind.IsFlag() {
					c.Env[o.EnvKey] = rapid.SampledFrom([]string{"true", "1", "false", ""}).Draw(t, "envFlag")
				} else if o.EnvDelim != "" {
					k := rapid.IntRange(1, 3).Draw(t, "nenv")
					var parts []string
					for j := 0; j < k; j++ {
						v := valFor(o, "envVal")
						if strings.Contains(v, o.EnvDelim) {
							v = "x"
							if _, ver := RefOne(o.Kind, o.Base, v); ver != Accept {
								v = genValidText(t, o.Kind.Elem(), o.Base)
								if o.Kind.IsMap() {
									v = "k:" + genValidText(t, func() Kind { _, vk := o.Kind.MapKV(); return vk }(), o.Base)
								}
							}
						}
						parts = append(parts, v)
					}
					c.Env[o.EnvKey] = envSafe(strings.Join(parts, o.EnvDelim))
				} else {
					c.Env[o.EnvKey] = envSafe(valFor(o, "envVal"))
				}
			case 3:
				c.Env[o.EnvKey] = ""
			}
		}
		// INI entries (not for callbacks: their calls are compared as one log)
		if !o.Kind.IsFunc() && rapid.IntRange(0, 2).Draw(t, "hasIni") == 0 {
			k := 1
			if o.Kind.IsMulti() || o.Kind == KBoolSlice {
				k = rapid.IntRange(1, 3).Draw(t, "nini")
			}
			sects := iniSectionsFor(d, o)
			section := rapid.SampledFrom(sects).Draw(t, "section")
			for j := 0; j < k; j++ {
				// (the entries of one option may sit in different sections that
				// denote the same group: before any header and under its name)
				if j > 0 && len(sects) > 1 && rapid.Bool().Draw(t, "otherSection") {
					section = rapid.SampledFrom(sects).Draw(t, "section2")
				}
				raw := ""
				if o.Kind.IsFlag() {
					raw = rapid.SampledFrom([]string{"", "true", "false"}).Draw(t, "iniFlag")
				} else {
					raw = iniValueFor(o, valFor(o, "iniVal"), false)
				}
				l := IniLine{Section: section, Key: iniKeyOf(o), Value: raw}
				if r := RefIni(d, []IniLine{l}); r.ErrKind == "" {
					c.Lines = append(c.Lines, l)
				}
			}
		}
		// command line
		// (options of commands stay without command-line occurrence: no command
		// is selected, their other sources must still be ranked correctly)
		if len(o.Chain) == 1 && rapid.IntRange(0, 2).Draw(t, "hasCli") == 0 {
			k := 1
			if o.Kind.IsMulti() || o.Kind == KBoolSlice {
				k = rapid.IntRange(1, 3).Draw(t, "ncli")
			}
			for j := 0; j < k; j++ {
				name := "--" + o.NsLong
				if o.Long == "" {
					name = "-" + o.Short
				}
				if o.Kind.IsFlag() {
					c.Args = append(c.Args, name)
				} else {
					v := valFor(o, "cliVal")
					if len(v) > 0 && v[0] == '"' && o.Unquote != "false" {
						continue
					}
					c.Args = append(c.Args, name+"="+v)
				}
			}
		}
	}
	// group INI lines: header-less first, then by section
	sort.SliceStable(c.Lines, func(i, j int) bool { return c.Lines[i].Section < c.Lines[j].Section })
	if c.Mode != "ini-asdefaults-after" && len(c.Lines) > 0 && rapid.IntRange(0, 5).Draw(t, "faultyTail") == 0 {
		c.FaultyTail = true
	}
	return c
}

func c05Oracle(c *C05Case) string {
	st := S("C05")
	iniRef := RefIni(c.D, c.Lines)
	if iniRef.ErrKind != "" {
		st.Label("skip: ini not accepted by R")
		return ""
	}
	pre := map[string][]interface{}{}
	for id, el := range iniRef.Touched {
		pre[id] = el
	}
	refPre := pre
	if c.Mode == "ini-asdefaults-after" {
		// the command line (with env/default application and validation)
		// comes first; the INI values are overlaid afterwards
		refPre = nil
	}
	ref := Ref(&RefInput{D: c.D, Args: c.Args, Env: c.Env, PreSet: refPre})
	if c.Mode == "ini-asdefaults-after" && ref.Undetermined == "" && ref.Err == nil {
		for _, o := range c.D.AllOpts() {
			if el, ok := pre[o.ID]; ok && ref.Occ[o.ID] == 0 {
				ref.Vals[o.ID] = IniFinal(o, el)
				ref.Sources[o.ID] = "ini"
			}
		}
	}
	if ref.Undetermined != "" {
		st.Label("skip: " + ref.Undetermined)
		return ""
	}
	text, _ := RenderIni(c.Lines)
	if c.FaultyTail {
		text += "nosuchoptionzz = 1\n"
	}
	var b *Built
	var perr, ierr error
	pm := Safely(func() {
		b = Build(c.D)
		if b.Err != nil {
			return
		}
		ip := flags.NewIniParser(b.P)
		ip.ParseAsDefaults = c.Mode != "ini-normal-before"
		withEnv(c.Env, func() {
			if c.Mode == "ini-asdefaults-after" {
				_, perr = b.P.ParseArgs(append([]string{}, c.Args...))
				ierr = ip.Parse(strings.NewReader(text))
			} else {
				ierr = ip.Parse(strings.NewReader(text))
				_, perr = b.P.ParseArgs(append([]string{}, c.Args...))
				if c.Mode == "ini-asdefaults-before-and-after" && ierr == nil && perr == nil {
					// the same defaults file read once more after the command
					// line: it still ranks below what the command line gave, and
					// options it already provided are not provided twice
					ierr = ip.Parse(strings.NewReader(text))
				}
			}
		})
	})
	if pm != "" || b == nil || b.Err != nil {
		st.Label("skip: panic or setup error")
		return ""
	}
	st.Label("mode " + c.Mode)
	if ref.Err != nil {
		// a default/env value is rejected: the command-line parse must fail
		st.Label("R expects an error: " + ref.Err.Why[:min(len(ref.Err.Why), 24)])
		if perr == nil {
			return fmt.Sprintf("mode %s: ParseArgs succeeded but an error was expected: %s", c.Mode, ref.Err)
		}
		return ""
	}
	if c.FaultyTail {
		if ierr == nil {
			st.Label("skip: the entry naming no option was accepted")
			return ""
		}
		st.Label("INI read failed at its last entry, command line parsed afterwards")
	} else if ierr != nil {
		return fmt.Sprintf("mode %s: reading the INI failed: %v\n%s", c.Mode, ierr, text)
	}
	if perr != nil {
		return fmt.Sprintf("mode %s: ParseArgs %q failed: %v (env %v)", c.Mode, c.Args, perr, c.Env)
	}
	// callbacks: called for the command line's occurrences or else once per value
	// of the highest-ranked lower source - never for both
	iniCallsCallback := false
	for _, l := range c.Lines {
		scope, _ := iniScope(c.D, l.Section)
		if o := iniResolve(scope, l.Key); o != nil && o.Kind.IsFunc() {
			iniCallsCallback = true // (an entry meant for another option of the same field name)
		}
	}
	if iniCallsCallback {
		st.Label("skip: an INI entry addresses a callback")
		return ""
	}
	if !c.FaultyTail && !iniCallsCallback {
		for _, o := range c.D.AllOpts() {
			if !o.Kind.IsFunc() {
				continue
			}
			var got, want []CbEntry
			for _, e := range b.CbLog {
				if e.Opt == o.ID {
					got = append(got, e)
				}
			}
			for _, e := range ref.CbLog {
				if e.Opt == o.ID {
					want = append(want, e)
				}
			}
			// given on the command line: exactly those calls, none for the
			// lower-ranked env variable or default tags
			if fmt.Sprint(got) != fmt.Sprint(want) {
				return fmt.Sprintf("mode %s: callback %s (%s, highest-ranked source %q): calls %v, expected %v\n args %q\n env %v", c.Mode, o.ID, o.Display(), ref.Sources[o.ID], got, want, c.Args, c.Env)
			}
		}
	}
	var iniKept, iniLost []string
	for _, o := range c.D.AllOpts() {
		want, ok := ref.Vals[o.ID]
		if !ok || o.Kind.IsFunc() {
			continue
		}
		got := b.OptVal[o.ID].Interface()
		// which sources are present
		var srcs []string
		if len(o.Initial) > 0 {
			srcs = append(srcs, "initial")
		}
		if len(o.Defaults) > 0 {
			srcs = append(srcs, "default")
		}
		if _, set := c.Env[o.EnvKey]; set && o.EnvKey != "" {
			srcs = append(srcs, "env")
		}
		if _, set := pre[o.ID]; set {
			srcs = append(srcs, "ini")
		}
		if ref.Occ[o.ID] > 0 {
			srcs = append(srcs, "cli")
		}
		if len(srcs) >= 2 {
			st.Label("winner " + ref.Sources[o.ID] + " among " + strings.Join(srcs, "+"))
			st.NonTrivial(fmt.Sprintf("%s|%s|%s|%s", o.Kind, strings.Join(srcs, "+"), c.Mode, o.EnvDelim), map[string]interface{}{"kind": o.Kind, "sources": srcs, "mode": c.Mode, "winner": ref.Sources[o.ID], "args": c.Args, "env": c.Env, "ini": text})
		}
		if c.FaultyTail {
			// Whether the entries before the failing one count as read is the
			// implementation's choice, but it is one choice: either all of them
			// rank above env/default tags, or none was applied
			if ref.Sources[o.ID] == "ini" {
				if ValEqual(got, want) {
					iniKept = append(iniKept, o.ID)
				} else {
					iniLost = append(iniLost, fmt.Sprintf("%s (%s, sources %v) holds %s, the INI value is %s", o.ID, o.Display(), srcs, ShowVal(got), ShowVal(want)))
				}
			}
			continue
		}
		if !ValEqual(got, want) {
			return fmt.Sprintf("mode %s: option %s (%s, %s) has sources %v; expected the value from %q = %s, field holds %s\n args %q\n env %v\n ini:\n%s", c.Mode, o.ID, o.Display(), o.Kind, srcs, ref.Sources[o.ID], ShowVal(want), ShowVal(got), c.Args, c.Env, text)
		}
	}
	if len(iniKept) > 0 && len(iniLost) > 0 {
		return fmt.Sprintf("mode %s: the INI read failed at its last entry; of the entries before it some still rank above env/default tags (%v) and some were overridden: %v\n args %q\n env %v\n ini:\n%s", c.Mode, iniKept, iniLost, c.Args, c.Env, text)
	}
	return ""
}

func TestC05(t *testing.T) {
	S("C05").Rule = "options of every non-callback type in nested groups with namespaces and env-namespaces, on the parser and on sub-commands that are not selected x independent subsets of {initial field value, default tag(s), environment variable unset/set/set-empty with env-delim none/,/::, INI entry(ies), command-line occurrence(s)} x INI mode {normal read before the command line, as-defaults before, as-defaults after}; oracle: R ranking cli > ini > env > default > initial, winner's values replace everything lower for slices and maps. non-trivial: an option with >= 2 sources present; distinct by (type, source subset, mode, env-delim)"
	runProp(t, "C05", genC05, c05Oracle)
}
