package props

import (
	"fmt"
	"testing"

	flags "github.com/jessevdk/go-flags"
	"pgregory.net/rapid"
)

// C01: option fields hold exactly what the command line denotes.

var c01Decl = &GenCfg{Depth: 3, Fanout: 3, MaxOpts: 4, MaxGroups: 2, NestGroups: 2, Kinds: AllKinds, Pos: true, Ns: true,
	Req: 4, Choices: true, Defaults: true, OptArg: true, Hidden: true, Desc: true, Plain: true, Initial: true, Bases: true,
	Unquote: true, Aliases: true, SubOpt: 40, NonASCII: true, NsDelims: []string{"-", "::", ""}, InCode: 10, NoFlag: true, ViaAdd: 5, StaticTwins: true,
	ParserOpts: []flags.Options{flags.HelpFlag, flags.PassDoubleDash, flags.PassAfterNonOption, flags.IgnoreUnknown}}

var c01Argv = &ArgvCfg{MaxItems: 4, WOpt: 40, WCluster: 12, WCmd: 2, WPlain: 4, WTerm: 1, WUnknown: 0, WJunk: 1, WRepeat: 40, BadVal: 2, Quote: 12}

var _ = Register("C01", func() interface{} { return new(ParseCase) }, func(c interface{}) string { return c01Oracle(c.(*ParseCase)) })

func c01Oracle(c *ParseCase) string {
	st := S("C01")
	ref := Ref(&RefInput{D: c.D, Args: c.Args, Env: c.Env, Handler: c.Handler})
	if ref.Undetermined != "" {
		st.Label("skip: " + ref.Undetermined)
		return ""
	}
	rr := RunReal(c.D, c.Args, c.Env, &RealCfg{Handler: c.Handler})
	if c.Handler != nil && len(ref.Handler) > 0 {
		st.Label("unknown options recovered by a handler between the occurrences")
	}
	if rr.Panic != "" || rr.SetupErr != nil {
		// totality / setup are C04's and C19's subject
		st.Label("skip: panic or setup error")
		return ""
	}
	if rr.Err != nil {
		st.Label("parse failed")
		// plain fields must be untouched whatever happens
		return CheckPlain(rr.B)
	}
	if ref.Err != nil {
		// the parser accepted what R rejects: not C01's statement
		st.Label("skip: R expects an error")
		return CheckPlain(rr.B)
	}
	st.Label("success")
	// classify
	total, multi2, nsOcc, deepOcc := 0, false, false, false
	for _, o := range c.D.AllOpts() {
		n := ref.Occ[o.ID]
		if o.Kind.IsFunc() {
			n = 0
			for _, e := range ref.CbLog {
				if e.Opt == o.ID {
					n++
				}
			}
		}
		if n == 0 {
			continue
		}
		total += n
		if n >= 2 && (o.Kind.IsMulti() || o.Kind.IsFunc()) {
			multi2 = true
		}
		if len(o.Groups) > 0 && o.NsLong != o.Long {
			nsOcc = true
		}
		if len(o.Chain) > 1 {
			deepOcc = true
		}
	}
	if multi2 {
		st.Label("multi-valued/callback option given >= 2 times")
	}
	if nsOcc {
		st.Label("namespaced option occurred")
	}
	if deepOcc {
		st.Label("option of a sub-command occurred")
	}
	if total >= 2 && (multi2 || nsOcc || deepOcc) {
		st.NonTrivial(c.Key(), map[string]interface{}{"args": c.Args, "decl_sig": declSig(c.D)})
	}
	st.Label(fmt.Sprintf("occurrences: %d", min(total, 6)))
	return CheckValues(rr, ref)
}

func TestC01(t *testing.T) {
	S("C01").Rule = "declaration (all option types incl. slices, maps, pointers, callbacks, custom unmarshaler; groups nested <= 2 with namespaces and delimiters . - :: and empty; commands depth <= 3 by tag and programmatic; random initial field values; untagged plain fields) x planned argv with repeated occurrences in mixed spellings and clusters (in a sixth of the cases with unknown options recovered by an UnknownOptionHandler in between) x {HelpFlag, PassDoubleDash, PassAfterNonOption}; oracle: reference semantics R (values, callback log) + plain fields unchanged. non-trivial: successful parse with >= 2 occurrences including a multi-valued/callback option given >= 2 times, a namespaced option, or an option of a sub-command; distinct by (declaration signature, argv)"
	runProp(t, "C01", genC01, c01Oracle)
}

var c01ArgvUnknown = func() *ArgvCfg { a := *c01Argv; a.WUnknown = 10; return &a }()

func genC01(t *rapid.T) *ParseCase {
	if rapid.IntRange(0, 5).Draw(t, "withHandler") != 0 {
		return genParseCase(t, c01Decl, c01Argv)
	}
	// unknown options, recovered by an UnknownOptionHandler that leaves the
	// arguments alone, in between the occurrences of the declared options
	c := genParseCase(t, c01Decl, c01ArgvUnknown)
	c.Handler = &HandlerSpec{Mode: "same"}
	return c
}
