package props

import (
	"bytes"
	"fmt"
	"regexp"
	"strings"
	"testing"
	"unicode/utf8"

	flags "github.com/jessevdk/go-flags"
	"pgregory.net/rapid"
)

// C17: help layout is well-formed for every declaration and width.

type C17Case struct {
	D      *Decl    `json:"decl"`
	Width  int      `json:"width"` // 0: not a terminal (80)
	Active []string `json:"active,omitempty"`
}

var _ = Register("C17", func() interface{} { return new(C17Case) }, func(c interface{}) string { return c17Oracle(c.(*C17Case)) })

var c17Scripts = [][]rune{
	[]rune("abcdefghijklmnopqrstuvwxyz"),
	[]rune("éàüöñçßøå"),
	[]rune("αβγδεζηθλμπσω"),
	[]rune("абвгдежзиклмн"),
	[]rune("日本語中文字漢字仮名"),
	[]rune("%!?$&*()_+.,;:'/\\<>@#^~{}|=09ds"), // punctuation (no hyphen: a hyphen at a line end marks a hard break)
}

func c17Word(t *rapid.T, label string, min, max int) string {
	w := []int{50, 12, 12, 12, 14, 0}
	if label == "w" {
		w[5] = 8 // punctuation only inside descriptions
	}
	sc := c17Scripts[weighted(t, label+"Script", w)]
	n := rapid.IntRange(min, max).Draw(t, label+"Len")
	var sb strings.Builder
	for i := 0; i < n; i++ {
		sb.WriteRune(sc[rapid.IntRange(0, len(sc)-1).Draw(t, label+"R")])
	}
	return sb.String()
}

type c17Gen struct {
	t     *rapid.T
	n     int
	short map[string]bool
}

func (g *c17Gen) desc(marker string) string {
	t := g.t
	var sb strings.Builder
	sb.WriteString(marker)
	n := rapid.IntRange(0, 14).Draw(t, "nwords")
	for i := 0; i < n; i++ {
		sb.WriteString([]string{" ", " ", " ", " ", "  ", "\n", "\n\n", " \n "}[weighted(t, "sep", []int{10, 10, 10, 10, 3, 3, 2, 1})])
		maxLen := 12
		if rapid.IntRange(0, 9).Draw(t, "longWord") == 0 {
			maxLen = 60
		}
		sb.WriteString(c17Word(t, "w", 1, maxLen))
	}
	return sb.String()
}

func (g *c17Gen) opt(used map[string]bool) Opt {
	t := g.t
	g.n++
	o := Opt{ID: fmt.Sprintf("o%d", g.n), Field: fmt.Sprintf("F%d", g.n), Kind: rapid.SampledFrom([]Kind{KString, KInt, KBool, KStringSlice, KTri}).Draw(t, "kind")}
	if rapid.IntRange(0, 9).Draw(t, "hasShort") < 6 {
		pool := []string{"a", "b", "c", "d", "e", "f", "g", "x", "y", "z", "é", "λ", "中", "я", "ß", "日"}
		s := rapid.SampledFrom(pool).Draw(t, "short")
		if !g.short[s] {
			g.short[s] = true
			o.Short = s
		}
	}
	if o.Short == "" || rapid.IntRange(0, 9).Draw(t, "hasLong") < 8 {
		for i := 0; ; i++ {
			l := c17Word(t, "long", 1, 18)
			if rapid.Bool().Draw(t, "dashed") {
				l += "-" + c17Word(t, "long2", 1, 8)
			}
			if i > 0 {
				l = fmt.Sprintf("%s%d", l, g.n)
			}
			if !used[l] {
				used[l] = true
				o.Long = l
				break
			}
		}
	}
	if !o.Kind.IsFlag() && rapid.IntRange(0, 9).Draw(t, "hasValueName") < 4 {
		o.ValueName = strings.ToUpper(c17Word(t, "vn", 1, 10))
	}
	if !o.Kind.IsFlag() && rapid.IntRange(0, 9).Draw(t, "hasChoices") < 2 {
		nc := rapid.IntRange(1, 3).Draw(t, "nchoices")
		for i := 0; i < nc; i++ {
			o.Choices = append(o.Choices, c17Word(t, "choice", 1, 8))
		}
	}
	if rapid.IntRange(0, 9).Draw(t, "hasDesc") < 8 {
		o.Desc = g.desc(fmt.Sprintf("Mk%dq", g.n))
	}
	if !o.Kind.IsFlag() && rapid.IntRange(0, 4).Draw(t, "optionalArg") == 0 {
		o.Optional = "yes"
		o.OptVals = []string{"ov"}
	}
	if rapid.IntRange(0, 19).Draw(t, "hidden") == 0 {
		o.Hidden = "yes"
	}
	return o
}

func (g *c17Gen) group(desc string, used map[string]bool, min int) Group {
	g.n++
	gr := Group{Field: fmt.Sprintf("G%d", g.n), Desc: desc}
	n := rapid.IntRange(min, 4).Draw(g.t, "nopts")
	for i := 0; i < n; i++ {
		gr.Options = append(gr.Options, g.opt(used))
	}
	return gr
}

func (g *c17Gen) pos() *Positional {
	t := g.t
	g.n++
	p := &Positional{Field: fmt.Sprintf("Pos%d", g.n)}
	n := rapid.IntRange(1, 3).Draw(t, "npos")
	for i := 0; i < n; i++ {
		g.n++
		pa := PosArg{Field: fmt.Sprintf("A%d", g.n), Kind: KString}
		if rapid.Bool().Draw(t, "posNamed") {
			pa.Name = c17Word(t, "posName", 1, 16)
		}
		if rapid.IntRange(0, 9).Draw(t, "posDesc") < 8 {
			pa.Desc = g.desc(fmt.Sprintf("Mk%dq", g.n))
		}
		p.Args = append(p.Args, pa)
	}
	return p
}

func genC17(t *rapid.T) *C17Case {
	g := &c17Gen{t: t, short: map[string]bool{}}
	d := &Decl{Root: Cmd{ID: "root", Name: "app"}}
	if rapid.IntRange(0, 3).Draw(t, "customNsDelim") == 0 {
		dl := rapid.SampledFrom([]string{"::", "-", "->>", "·"}).Draw(t, "nsDelim")
		d.NsDelim = &dl
	}
	used := map[string]bool{}
	d.Root.G.Groups = append(d.Root.G.Groups, g.group("Application Options", used, 0))
	if rapid.Bool().Draw(t, "secondGroup") {
		gr := g.group("Other Options", used, 1)
		if rapid.Bool().Draw(t, "nestedGroup") {
			sub := g.group("Nested Group", used, 1)
			if rapid.IntRange(0, 3).Draw(t, "subNs") > 0 {
				sub.Namespace = c17Word(t, "ns", 1, 10)
			}
			if rapid.Bool().Draw(t, "deeperGroup") {
				sub2 := g.group("Deeper Group", used, 1)
				if rapid.Bool().Draw(t, "sub2Ns") {
					sub2.Namespace = c17Word(t, "ns2", 1, 10)
				}
				sub.Groups = append(sub.Groups, sub2)
			}
			gr.Groups = append(gr.Groups, sub)
			// (a hidden group may contain a group that is not hidden itself)
			gr.Hidden = rapid.IntRange(0, 5).Draw(t, "hiddenOuterGroup") == 0
		}
		d.Root.G.Groups = append(d.Root.G.Groups, gr)
	}
	if rapid.IntRange(0, 9).Draw(t, "rootPos") < 3 {
		d.Root.Pos = g.pos()
	}
	c := &C17Case{D: d}
	// command levels (indentation)
	cur := &d.Root
	depth := rapid.IntRange(0, 2).Draw(t, "depth")
	if d.Root.Pos != nil {
		depth = 0
	}
	for lv := 0; lv < depth; lv++ {
		g.n++
		g.short = map[string]bool{}
		sc := Cmd{ID: fmt.Sprintf("c%d", g.n), Name: fmt.Sprintf("cmd%d", lv+1), Field: fmt.Sprintf("C%d", g.n), ByTag: cur.ByTag || rapid.Bool().Draw(t, "byTag"), Desc: "a command"}
		cu := map[string]bool{}
		if sc.ByTag {
			sc.G = g.group("", cu, 0)
			sc.G.Field = ""
			if rapid.Bool().Draw(t, "cmdSubGroup") {
				sc.G.Groups = append(sc.G.Groups, g.group(fmt.Sprintf("Sub Group %d", lv), cu, 1))
			}
		} else {
			sc.G.Groups = append(sc.G.Groups, g.group(fmt.Sprintf("Cmd Group %d", lv), cu, 0))
		}
		if rapid.IntRange(0, 9).Draw(t, "cmdPos") < 3 {
			sc.Pos = g.pos()
		}
		cur.Cmds = append(cur.Cmds, sc)
		cur = &cur.Cmds[len(cur.Cmds)-1]
		c.Active = append(c.Active, sc.ID)
		if sc.Pos != nil {
			break
		}
	}
	if cur.Pos == nil && rapid.Bool().Draw(t, "listedCommands") {
		// sub-commands of the innermost command are listed under "Available commands"
		for i := rapid.IntRange(1, 3).Draw(t, "nlisted"); i > 0; i-- {
			g.n++
			sc := Cmd{ID: fmt.Sprintf("c%d", g.n), Name: fmt.Sprintf("%s%d", c17Word(t, "cmdName", 1, 10), g.n), Field: fmt.Sprintf("C%d", g.n), ByTag: cur.ByTag || rapid.Bool().Draw(t, "byTag2")}
			if rapid.IntRange(0, 3).Draw(t, "cmdHasDesc") > 0 {
				sc.Desc = "listed command"
			}
			if rapid.Bool().Draw(t, "cmdAlias") {
				sc.Aliases = []string{c17Word(t, "alias", 1, 6)}
			}
			if !sc.ByTag {
				sc.G.Groups = []Group{{Field: fmt.Sprintf("G%d", g.n), Desc: fmt.Sprintf("Listed Group %d", g.n)}}
			}
			cur.Cmds = append(cur.Cmds, sc)
		}
		cur.SubOpt = true
	}
	if rapid.IntRange(0, 2).Draw(t, "longDesc") == 0 {
		// long description of the innermost active command, shown below the usage line
		var sb strings.Builder
		sb.WriteString("MkLq")
		for i := rapid.IntRange(1, 20).Draw(t, "ldWords"); i > 0; i-- {
			sb.WriteString([]string{" ", " ", " ", "\n", "  "}[rapid.IntRange(0, 4).Draw(t, "ldSep")])
			maxLen := 12
			if rapid.IntRange(0, 9).Draw(t, "ldLong") == 0 {
				maxLen = 90
			}
			sb.WriteString(c17Word(t, "w", 1, maxLen))
		}
		cur.LongDesc = sb.String()
	}
	switch weighted(t, "widthClass", []int{1, 3, 3, 2, 1}) {
	case 0:
		c.Width = 0
	case 1:
		c.Width = rapid.IntRange(1, 40).Draw(t, "width")
	case 2:
		c.Width = rapid.IntRange(41, 100).Draw(t, "width")
	case 3:
		c.Width = rapid.IntRange(101, 400).Draw(t, "width")
	case 4:
		c.Width = 80
	}
	return c
}

var c17HyphenBreak = regexp.MustCompile(`-\n\s*`)

func runeCol(line string, byteIdx int) int { return utf8.RuneCountInString(line[:byteIdx]) }

func c17Render(c *C17Case) (out string, width int, havePty bool, pm string, setup error) {
	defer guardCall("WriteHelp")()
	width = c.Width
	if c.Width > 0 {
		if !SetTermWidth(c.Width) {
			return "", 0, false, "", nil
		}
	}
	b := Build(c.D)
	if b.Err != nil {
		return "", 0, true, "", b.Err
	}
	lc := b.P.Command
	for _, id := range c.Active {
		sub := b.Cmds[id]
		if sub == nil {
			break
		}
		lc.Active = sub
		lc = sub
	}
	var buf bytes.Buffer
	if c.Width == 0 {
		// not a terminal: a plain file on fd 0 would be needed; the library
		// falls back to 80 columns only if the ioctl fails, so use width 80
		if !SetTermWidth(80) {
			// no pty at all: ioctl fails, library uses 80
		}
		width = 80
	}
	pm = Safely(func() { b.P.WriteHelp(&buf) })
	return buf.String(), width, true, pm, nil
}

type c17Row struct {
	marker string
	desc   string
	what   string
}

// c17Oracle: the layout checks on WriteHelp's output, then the same help text
// as delivered by the built-in help flag (the message of the ErrHelp error).
func c17Oracle(c *C17Case) string {
	if m := c17Layout(c); m != "" {
		return m
	}
	return c17ViaFlag(c)
}

// c17ViaFlag: requesting the help with --help on the same declaration, width
// and command chain yields, as the ErrHelp message, exactly what WriteHelp
// writes for the parser in that state.
func c17ViaFlag(c *C17Case) string {
	st := S("C17")
	defer guardCall("help through --help")()
	w := c.Width
	if w == 0 {
		w = 80
	}
	if !SetTermWidth(w) {
		return ""
	}
	d := *c.D
	d.Opts |= uint(flags.HelpFlag)
	b := Build(&d)
	if b.Err != nil {
		return ""
	}
	var words []string
	cur := &d.Root
	for _, id := range c.Active {
		var next *Cmd
		for i := range cur.Cmds {
			if cur.Cmds[i].ID == id {
				next = &cur.Cmds[i]
			}
		}
		if next == nil {
			return ""
		}
		words = append(words, next.Name)
		cur = next
	}
	var err error
	if pm := Safely(func() { _, err = b.P.ParseArgs(append(words, "--help")) }); pm != "" {
		return fmt.Sprintf("requesting help with %q panicked at width %d: %s", append(words, "--help"), w, pm)
	}
	fe := FlagsErr(err)
	if fe == nil || fe.Type != flags.ErrHelp {
		st.Label("help flag path: no ErrHelp (not compared)")
		return ""
	}
	var buf bytes.Buffer
	if pm := Safely(func() { b.P.WriteHelp(&buf) }); pm != "" {
		return "WriteHelp panicked after a help request: " + pm
	}
	st.Label("help flag path compared")
	if fe.Message != buf.String() {
		return fmt.Sprintf("the help text delivered by --help (ErrHelp message) differs from what WriteHelp writes for the same parser at width %d:\n--- ErrHelp ---\n%s\n--- WriteHelp ---\n%s", w, trunc(diffContext(fe.Message, buf.String(), true)), trunc(diffContext(fe.Message, buf.String(), false)))
	}
	return ""
}

func c17Layout(c *C17Case) string {
	st := S("C17")
	out, width, ok, pm, setup := c17Render(c)
	if !ok {
		st.Label("skip: no pseudo-terminal for this width")
		return ""
	}
	if setup != nil {
		st.Label("skip: setup error")
		return ""
	}
	if pm != "" {
		return "WriteHelp panicked at width " + fmt.Sprint(width) + ": " + pm
	}
	// rows expected: visible described options along the active chain, described positionals
	var rows []c17Row
	nonASCII, levels := false, 0
	chainIDs := map[string]bool{"root": true}
	for _, id := range c.Active {
		chainIDs[id] = true
	}
	headers := map[string]bool{"Arguments:": true, "Available commands:": true}
	c.D.EachCmd(func(cm *Cmd, chain []*Cmd) {
		if !chainIDs[cm.ID] {
			return
		}
		has := false
		for _, o := range c.D.CmdOpts(cm, chain) {
			if o.IsHidden() || o.HiddenG {
				continue
			}
			has = true
			if o.Desc != "" {
				rows = append(rows, c17Row{marker: strings.Fields(o.Desc)[0], desc: o.Desc, what: "option " + o.Display()})
			}
			if len(o.NsLong+o.Short+o.ValueName+strings.Join(o.Choices, "")) != utf8.RuneCountInString(o.NsLong+o.Short+o.ValueName+strings.Join(o.Choices, "")) {
				nonASCII = true
			}
		}
		if cm.Pos != nil {
			for _, pa := range cm.Pos.Args {
				if pa.Desc != "" {
					rows = append(rows, c17Row{marker: strings.Fields(pa.Desc)[0], desc: pa.Desc, what: "positional " + pa.DisplayName()})
					has = true
				}
				if len(pa.DisplayName()) != utf8.RuneCountInString(pa.DisplayName()) {
					nonASCII = true
				}
			}
		}
		if has {
			levels++
		}
		cm.G.EachGroup(func(g *Group, _ []*Group) {
			if g.Desc != "" {
				headers[g.Desc+":"] = true
			}
		})
		headers["["+cm.Name+" command options]"] = true
		headers["["+cm.Name+" command arguments]"] = true
	})
	if !utf8.ValidString(out) {
		// inputs are always valid UTF-8 here
		return fmt.Sprintf("help output is not valid UTF-8 (width %d): %q", width, firstInvalid(out))
	}
	lines := strings.Split(out, "\n")
	// locate first lines of rows
	rowAt := map[int]int{} // line index -> row index
	col := -1
	for ri, r := range rows {
		found := -1
		for li, l := range lines {
			if i := strings.Index(l, r.marker); i >= 0 {
				found = li
				cc := runeCol(l, i)
				if col == -1 {
					col = cc
				} else if cc != col {
					return fmt.Sprintf("width %d: description of %s starts in column %d, others in column %d\n%s", width, r.what, cc, col, out)
				}
				break
			}
		}
		if found < 0 {
			return fmt.Sprintf("width %d: description of %s (marker %s) not found in help\n%s", width, r.what, r.marker, out)
		}
		rowAt[found] = ri
	}
	longWord := false
	for li, ri := range rowAt {
		r := rows[ri]
		first := lines[li]
		text := []string{string([]rune(first)[col:])}
		if width-col >= 10 && utf8.RuneCountInString(first) > width {
			return fmt.Sprintf("width %d: first description line of %s is %d characters long\n%s", width, r.what, utf8.RuneCountInString(first), out)
		}
		for lj := li + 1; lj < len(lines); lj++ {
			l := lines[lj]
			if _, isRow := rowAt[lj]; isRow {
				break
			}
			if headers[strings.TrimSpace(l)] {
				break
			}
			if strings.TrimSpace(l) == "" {
				text = append(text, "")
				continue
			}
			// a row of an option without description: starts with '-' left
			// of the description column (description words never contain '-')
			if tl := strings.TrimLeft(l, " "); strings.HasPrefix(tl, "-") && len(l)-len(tl) < col {
				break
			}
			// continuation line: exactly col blanks, then text
			rs := []rune(l)
			if len(rs) <= col || strings.TrimLeft(string(rs[:col]), " ") != "" || rs[col] == ' ' {
				return fmt.Sprintf("width %d: continuation line %q of %s is not indented to column %d\n%s", width, l, r.what, col, out)
			}
			if width-col >= 10 && len(rs) > width {
				return fmt.Sprintf("width %d: description line %q of %s is %d characters long\n%s", width, l, r.what, len(rs), out)
			}
			text = append(text, string(rs[col:]))
		}
		joined := c17HyphenBreak.ReplaceAllString(strings.Join(text, "\n"), "")
		got, want := strings.Fields(joined), strings.Fields(r.desc)
		if !strSliceEq(got, want) {
			return fmt.Sprintf("width %d: wrapped description of %s does not contain the original words in order:\n got  %q\n want %q\n%s", width, r.what, got, want, out)
		}
		wrapW := width - col
		if wrapW < 10 {
			wrapW = 10
		}
		for _, w := range want {
			if utf8.RuneCountInString(w) > wrapW {
				longWord = true
			}
			if len(w) != utf8.RuneCountInString(w) {
				nonASCII = true
			}
		}
	}
	// long description of the innermost active command
	{
		inner := &c.D.Root
		for _, id := range c.Active {
			for i := range inner.Cmds {
				if inner.Cmds[i].ID == id {
					inner = &inner.Cmds[i]
					break
				}
			}
		}
		if inner.LongDesc != "" {
			start := -1
			for li, l := range lines {
				if strings.HasPrefix(l, "MkLq") {
					start = li
					break
				}
			}
			if start < 0 {
				return fmt.Sprintf("width %d: long description of the active command not found at the start of a line\n%s", width, out)
			}
			var text []string
			for lj := start; lj < len(lines) && strings.TrimSpace(lines[lj]) != "" || (lj > start && lj < len(lines) && strings.HasSuffix(lines[lj-1], "-") && strings.TrimSpace(lines[lj]) == ""); lj++ {
				if width >= 10 && utf8.RuneCountInString(lines[lj]) > width {
					return fmt.Sprintf("width %d: long description line %q is %d characters long\n%s", width, lines[lj], utf8.RuneCountInString(lines[lj]), out)
				}
				text = append(text, lines[lj])
			}
			joined := c17HyphenBreak.ReplaceAllString(strings.Join(text, "\n"), "")
			if got, want := strings.Fields(joined), strings.Fields(inner.LongDesc); !strSliceEq(got, want) {
				return fmt.Sprintf("width %d: wrapped long description does not contain the original words in order:\n got  %q\n want %q\n%s", width, got, want, out)
			}
			st.Label("command long description checked")
		}
	}
	if len(rows) == 0 {
		st.Label("no described rows")
		return ""
	}
	for k, v := range map[string]bool{"non-ASCII name or word": nonASCII, "word longer than wrap width": longWord, "narrow: width-C < 25": width-col < 25, "two or more indentation levels": levels >= 2} {
		if v {
			st.Label(k)
		}
	}
	if nonASCII || longWord || width-col < 25 || levels >= 2 {
		st.NonTrivial(fmt.Sprintf("%d|%s|%v", c.Width, out, c.Active), map[string]interface{}{"width": width, "column": col, "help": out})
	}
	return ""
}

func firstInvalid(s string) string {
	for i := 0; i < len(s); {
		r, n := utf8.DecodeRuneInString(s[i:])
		if r == utf8.RuneError && n == 1 {
			lo, hi := i-20, i+20
			if lo < 0 {
				lo = 0
			}
			if hi > len(s) {
				hi = len(s)
			}
			return s[lo:hi]
		}
		i += n
	}
	return ""
}

func TestC17(t *testing.T) {
	S("C17").Rule = "declarations (option/positional/value names and choices over ASCII, Latin-1, Greek, Cyrillic, CJK; namespaced nested groups; 0-2 active command levels by tag or programmatic; positional arguments) x descriptions (unique ASCII marker + 0-14 words of 1-60 characters in any script, separated by blanks, newlines, blank paragraphs) x terminal width 1..400 through a real pty (and 80); oracle: no panic; valid UTF-8; all description starts (marker column, in characters) equal; continuation lines indented to exactly that column; words conserved in order after undoing hard breaks; no line longer than the width when width-C >= 10. non-trivial: non-ASCII name or word, a word longer than the wrap width, width-C < 25, or >= 2 indentation levels; distinct by rendered help text"
	runProp(t, "C17", genC17, c17Oracle)
}

// FuzzHelp: coverage-guided search over (width, names, description bytes).
func FuzzHelp(f *testing.F) {
	f.Add(uint16(80), "verbose", "FILE", "one two three", "positional")
	f.Add(uint16(20), "détaillé-ééééé", "ÉÉ", "ééééééééééééééééééééééééééééééééééé x", "éééééééé")
	f.Add(uint16(1), "日本語", "", "日本語日本語日本語日本語日本語日本語日本語日本語日本語日本語日本語", "名")
	f.Add(uint16(400), "a", "V", "a\n\nb\nc  d", "p")
	clean := func(s string, allowSpace bool) string {
		s = strings.ToValidUTF8(s, "?")
		var sb strings.Builder
		for _, r := range s {
			switch {
			case r == '-' || r == '\t' || r == '\r' || r == '\v' || r == '\f' || r == 0x85 || r == 0xa0 || r == 0x2028 || r == 0x2029:
				sb.WriteRune('x')
			case r == ' ' || r == '\n':
				if allowSpace {
					sb.WriteRune(r)
				}
			case r < 0x20 || r == 0x7f || !utf8.ValidRune(r):
				sb.WriteRune('x')
			default:
				if !allowSpace && (r == '=' || r == '[' || r == ']' || r == '|' || r == ':') {
					r = 'x'
				}
				if u := []rune(strings.TrimSpace(string(r))); len(u) == 0 {
					r = 'x' // other Unicode white space
				}
				sb.WriteRune(r)
			}
		}
		return sb.String()
	}
	f.Fuzz(func(t *testing.T, width uint16, long, vn, desc, pos string) {
		long, vn, pos = clean(long, false), clean(vn, false), clean(pos, false)
		desc = clean(desc, true)
		if long == "" {
			long = "l"
		}
		if len(long) > 200 || len(desc) > 2000 || len(vn) > 100 || len(pos) > 100 {
			return
		}
		d := &Decl{Root: Cmd{ID: "root", Name: "app"}}
		d.Root.G.Groups = []Group{{Field: "G0", Desc: "Application Options", Options: []Opt{
			{ID: "o1", Field: "A", Kind: KString, Short: "a", Long: "plain", Desc: "Mk1q plain description of the first option"},
			{ID: "o2", Field: "B", Kind: KString, Long: long, ValueName: vn, Desc: "Mk2q " + desc},
		}}}
		if pos != "" {
			d.Root.Pos = &Positional{Field: "Pos", Args: []PosArg{{Field: "P1", Kind: KString, Name: pos, Desc: "Mk3q " + desc}}}
		}
		c := &C17Case{D: d, Width: int(width%400) + 1}
		S("C17").Eval()
		if m := c17Oracle(c); m != "" {
			RecordFail("C17", c, m)
			t.Fatal(m)
		}
	})
}
