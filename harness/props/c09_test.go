package props

import (
	"encoding/json"
	"errors"
	"fmt"
	"os"
	"testing"

	flags "github.com/jessevdk/go-flags"
	"pgregory.net/rapid"
)

// C09: commands run exactly once and only after a fully successful parse.
// Fault enumeration: every single fault at every position of a valid vector.

var c09Decl = &GenCfg{Depth: 3, Fanout: 2, MaxOpts: 3, MaxGroups: 2, NestGroups: 1, Kinds: []Kind{KBool, KString, KInt, KStringSlice, KUint8, KMapSI, KFloat64, KTri, KToggle},
	Pos: true, PosPct: 40, PosReq: true, Ns: true, Req: 12, Choices: true, OptArg: true, Aliases: true, SubOpt: 35, CmdPct: 92, Hidden: true, Defaults: true, ByTagPct: 15, ViaAdd: 3, InCode: 8,
	ParserOpts: []flags.Options{flags.PassDoubleDash, flags.IgnoreUnknown}}

var c09Argv = &ArgvCfg{MaxItems: 2, WOpt: 60, WCluster: 10, WCmd: 5, WPlain: 8, WTerm: 1, WUnknown: 0, WJunk: 0, WRepeat: 12, BadVal: 0, Quote: 3}

type C09Case struct {
	ParseCase
	ExecErr bool `json:"exec_err"`
	// ExecHelp: the error returned by Execute is a *flags.Error of type ErrHelp
	// (a command printing its own usage) instead of a foreign error
	ExecHelp bool `json:"exec_help,omitempty"`
}

func (c *C09Case) wantExecErr() error {
	switch {
	case !c.ExecErr:
		return nil
	case c.ExecHelp:
		return errExecHelp
	}
	return errExecSentinel
}

var _ = Register("C09", func() interface{} { return new(C09Case) }, func(c interface{}) string { return c09Oracle(c.(*C09Case)) })

var errExecSentinel = errors.New("sentinel: Execute failed")

func genC09(t *rapid.T) *C09Case {
	d := genDecl(t, c09Decl)
	d.Opts |= uint(flags.HelpFlag)
	c := &C09Case{ParseCase: ParseCase{D: d}}
	c.Args = genArgv(t, d, c09Argv)
	c.CmdHandler = rapid.Bool().Draw(t, "cmdhandler")
	c.ExecErr = rapid.IntRange(0, 2).Draw(t, "execErr") == 0
	c.ExecHelp = c.ExecErr && rapid.Bool().Draw(t, "execHelp")
	return c
}

type fault struct {
	kind string
	args []string
}

func insertAt(a []string, i int, x ...string) []string {
	r := append([]string{}, a[:i]...)
	r = append(r, x...)
	return append(r, a[i:]...)
}

// c09Faults enumerates every single fault at every position.
func c09Faults(d *Decl, args []string, ref *RefResult) []fault {
	var fs []fault
	var intOpt, argOpt, choiceOpt *OptInfo
	for _, o := range d.AllOpts() {
		if o.NsLong == "" {
			continue
		}
		if (o.Kind == KInt || o.Kind == KUint8) && len(o.Choices) == 0 && intOpt == nil {
			intOpt = o
		}
		if !o.Kind.IsFlag() && !o.IsOptional() && argOpt == nil {
			argOpt = o
		}
		if len(o.Choices) > 0 && choiceOpt == nil {
			choiceOpt = o
		}
	}
	flagShort := ""
	for _, o := range d.AllOpts() {
		if o.Short != "" && o.Kind.IsFlag() && len(o.Chain) == 1 {
			flagShort = o.Short
			break
		}
	}
	for i := 0; i <= len(args); i++ {
		if flagShort != "" {
			fs = append(fs, fault{"unknown letter first in a cluster", insertAt(args, i, "-Z"+flagShort)})
			fs = append(fs, fault{"unknown letter in the middle of a cluster", insertAt(args, i, "-"+flagShort+"Z"+flagShort)})
			fs = append(fs, fault{"help flag first in a cluster", insertAt(args, i, "-h"+flagShort)})
		}
		fs = append(fs, fault{"unknown option", insertAt(args, i, "--no-such-option")})
		fs = append(fs, fault{"unknown short option", insertAt(args, i, "-Z")})
		fs = append(fs, fault{"help long", insertAt(args, i, "--help")})
		fs = append(fs, fault{"help short", insertAt(args, i, "-h")})
		fs = append(fs, fault{"flag with argument", insertAt(args, i, "--help=yes")})
		if intOpt != nil {
			fs = append(fs, fault{"invalid value", insertAt(args, i, "--"+intOpt.NsLong+"=notanumber")})
			fs = append(fs, fault{"out of range value", insertAt(args, i, "--"+intOpt.NsLong+"=99999999999999999999")})
			if intOpt.Kind == KUint8 {
				// fits 64 bits, not the field
				fs = append(fs, fault{"value beyond the field's own range", insertAt(args, i, "--"+intOpt.NsLong+"=300")})
			}
		}
		if choiceOpt != nil {
			fs = append(fs, fault{"invalid choice", insertAt(args, i, "--"+choiceOpt.NsLong+"=\x01nochoice")})
		}
		if argOpt != nil && i == len(args) {
			fs = append(fs, fault{"missing option argument", insertAt(args, i, "--"+argOpt.NsLong)})
		}
		if argOpt != nil && i < len(args) {
			fs = append(fs, fault{"option-looking argument", insertAt(args, i, "--"+argOpt.NsLong, "--no-such-option")})
		}
	}
	for i, cl := range ref.Class {
		switch cl {
		case TcCommand:
			v := append([]string{}, args...)
			v[i] = "nosuchcommand"
			fs = append(fs, fault{"unknown command word", v})
			// ... and an abbreviation of the command word (no command name or alias)
			// (R decides what the variant means, should it coincide with another name)
			if rs := []rune(args[i]); len(rs) > 1 {
				v2 := append([]string{}, args...)
				v2[i] = string(rs[:len(rs)-1])
				fs = append(fs, fault{"abbreviated command word", v2})
			}
			fs = append(fs, fault{"command word removed", append(append([]string{}, args[:i]...), args[i+1:]...)})
		case TcOption:
			// removal of an occurrence (a required option may go missing)
			end := i + 1
			if end < len(args) && ref.Class[end] == TcOptArg {
				end++
			}
			fs = append(fs, fault{"option occurrence removed", append(append([]string{}, args[:i]...), args[end:]...)})
		case TcPositional:
			fs = append(fs, fault{"positional removed", append(append([]string{}, args[:i]...), args[i+1:]...)})
			// unconvertible positional value, also behind a terminator
			bad := append([]string{}, args...)
			bad[i] = "x!bad"
			fs = append(fs, fault{"unconvertible positional value", bad})
			fs = append(fs, fault{"unconvertible positional value after terminator", insertAt(bad, i, "--")})
			fs = append(fs, fault{"unknown option in a positional slot", func() []string { v := append([]string{}, args...); v[i] = "--no-such-option"; return v }()})
		}
	}
	return fs
}

func c09Check(c *C09Case, args []string, kind string) (string, bool) {
	st := S("C09")
	ref := Ref(&RefInput{D: c.D, Args: args})
	if ref.Undetermined != "" {
		st.Label("skip: " + ref.Undetermined)
		return "", false
	}
	cfg := &RealCfg{CmdHandler: c.CmdHandler}
	cfg.ExecErr = c.wantExecErr()
	rr := RunReal(c.D, args, nil, cfg)
	if rr.Panic != "" || rr.SetupErr != nil {
		st.Label("skip: panic or setup error")
		return "", false
	}
	if ref.Err != nil {
		// R: some error must be detected -> nothing may have run
		if len(rr.B.ExecLog) != 0 || len(rr.CmdHand) != 0 {
			return fmt.Sprintf("[%s] argv %q: an error is due (%s; parser returned %v) but something was executed: Execute log %v, CommandHandler log %v", kind, args, ref.Err.Why, rr.Err, rr.B.ExecLog, rr.CmdHand), true
		}
		if rr.Err == nil {
			return fmt.Sprintf("[%s] argv %q: expected an error (%s) but the parse succeeded", kind, args, ref.Err.Why), true
		}
		return "", true
	}
	// R: valid vector
	if rr.Err != nil && !(c.ExecErr && rr.Err == c.wantExecErr()) {
		if len(rr.B.ExecLog) != 0 || len(rr.CmdHand) != 0 {
			return fmt.Sprintf("[%s] argv %q: parser returned error %v, yet something was executed: %v %v", kind, args, rr.Err, rr.B.ExecLog, rr.CmdHand), false
		}
		st.Label("skip: real error on a vector R accepts")
		return "", false
	}
	if m := CheckExec(&c.ParseCase, rr, ref); m != "" {
		return fmt.Sprintf("[%s] argv %q: %s", kind, args, m), false
	}
	if ref.ExecCmd != "" {
		// its error is returned unchanged
		want := c.wantExecErr()
		if rr.Err != want {
			return fmt.Sprintf("[%s] argv %q: Execute returned %v but the parser returned %v", kind, args, want, rr.Err), false
		}
	}
	return "", false
}

func c09Oracle(c *C09Case) string {
	st := S("C09")
	ref := Ref(&RefInput{D: c.D, Args: c.Args})
	if ref.Undetermined != "" {
		st.Label("skip base: " + ref.Undetermined)
		return ""
	}
	if m, _ := c09Check(c, c.Args, "base"); m != "" {
		return m
	}
	if ref.Err != nil {
		st.Label("base rejected")
		return ""
	}
	if ref.ExecCmd != "" {
		st.Label(fmt.Sprintf("base executes command at depth %d", len(ref.Chain)))
	} else {
		st.Label("base valid, innermost command not executable")
	}
	// completion mode: nothing is executed
	{
		b := Build(c.D)
		if b.Err == nil {
			called := false
			b.P.CompletionHandler = func(items []flags.Completion) { called = true }
			if c.CmdHandler {
				b.P.CommandHandler = func(cm flags.Commander, a []string) error {
					b.ExecLog = append(b.ExecLog, ExecEntry{ViaHand: true})
					return nil
				}
			}
			os.Setenv("GO_FLAGS_COMPLETION", "1")
			pm := Safely(func() { b.P.ParseArgs(append([]string{}, c.Args...)) })
			os.Unsetenv("GO_FLAGS_COMPLETION")
			if pm == "" {
				if len(b.ExecLog) != 0 {
					return fmt.Sprintf("completion mode executed a command: %v (argv %q)", b.ExecLog, c.Args)
				}
				if called {
					st.Label("completion mode checked")
				}
			}
		}
	}
	// a fault outside the argument vector: an option that is not given gets a
	// default (as if assigned by the program) that cannot be converted
	for _, o := range c.D.AllOpts() {
		if (o.Kind != KInt && o.Kind != KUint8 && o.Kind != KFloat64) || len(o.Choices) > 0 || ref.Occ[o.ID] > 0 || o.ViaAdd {
			continue
		}
		var d2 Decl
		if raw, err := json.Marshal(c.D); err != nil || json.Unmarshal(raw, &d2) != nil {
			break
		}
		patched := false
		d2.EachCmd(func(cm *Cmd, _ []*Cmd) {
			cm.G.EachGroup(func(g *Group, _ []*Group) {
				for i := range g.Options {
					if g.Options[i].ID == o.ID {
						g.Options[i].Defaults, g.Options[i].InCode, patched = []string{"x!notanumber"}, nil, true
					}
				}
			})
		})
		if !patched {
			break
		}
		c2 := *c
		c2.D = &d2
		st.Eval()
		m, rejected := c09Check(&c2, c.Args, "unconvertible default of an option that is not given")
		if m != "" {
			return m
		}
		if rejected {
			st.Label("fault rejected: unconvertible default of an option that is not given")
		}
		break
	}
	fs := c09Faults(c.D, c.Args, ref)
	for _, f := range fs {
		st.mu.Lock()
		if !st.failed {
			st.Evals++
		}
		st.mu.Unlock()
		m, rejected := c09Check(c, f.args, f.kind)
		if m != "" {
			return m
		}
		if rejected {
			st.Label("fault rejected: " + f.kind)
			if ref.ExecCmd != "" || c.CmdHandler {
				st.NonTrivial(fmt.Sprintf("%s|%s|%v", declSig(c.D), f.kind, f.args), map[string]interface{}{"base": c.Args, "fault": f.kind, "faulted": f.args, "cmd_handler": c.CmdHandler})
			}
		} else {
			st.Label("fault inert: " + f.kind)
		}
	}
	return ""
}

func TestC09(t *testing.T) {
	S("C09").Rule = "command trees with executable (programmatic) and non-executable (tag) commands at every level, with/without CommandHandler, Execute returning nil or a sentinel error x base argv; for every base R accepts, EVERY position x fault kind {unknown option long/short, --help, -h, flag with argument, unconvertible value, out-of-range value, invalid choice, missing option argument, option-looking argument} plus per-token faults {command word replaced by an unknown word, command word removed, option occurrence removed, positional removed, positional replaced by an unconvertible value (also behind '--') or by an unknown option}, plus completion mode; oracle: R decides whether the variant is rejected; rejected => Execute and CommandHandler logs empty; accepted => exactly one invocation of the innermost executable command with the returned remaining args and its error returned unchanged. evaluations = bases + fault variants. non-trivial: a fault variant of an executing base that is rejected; distinct by (declaration signature, fault kind, faulted argv)"
	runProp(t, "C09", genC09, c09Oracle)
}
