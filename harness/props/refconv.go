package props

// Independent reference conversions text -> typed value (C11's oracle, also used
// by the reference semantics R). Integers are parsed with an own digit scanner
// and math/big; floats, durations use the Go standard library of the declared
// width (trusted); bool uses an explicit table.

import (
	"fmt"
	"math"
	"math/big"
	"reflect"
	"strconv"
	"strings"
	"time"
)

type Verdict int

const (
	Accept Verdict = iota
	Reject
	DontCare // documentation does not settle it; only "if accepted then denoted value" is checked
)

func (v Verdict) String() string { return [...]string{"accept", "reject", "dontcare"}[v] }

var intBits = map[Kind]int{
	KInt: strconv.IntSize, KInt8: 8, KInt16: 16, KInt32: 32, KInt64: 64, KLvl: 8,
	KUint: strconv.IntSize, KUint8: 8, KUint16: 16, KUint32: 32, KUint64: 64,
}

func isSignedInt(k Kind) bool {
	switch k {
	case KInt, KInt8, KInt16, KInt32, KInt64, KLvl:
		return true
	}
	return false
}

func isUnsignedInt(k Kind) bool {
	switch k {
	case KUint, KUint8, KUint16, KUint32, KUint64:
		return true
	}
	return false
}

// refBigInt parses [+-]?digits in the given base. ok=false if not of that form.
func refBigInt(s string, base int) (n *big.Int, sign byte, ok bool) {
	if base < 2 || base > 36 {
		return nil, 0, false
	}
	if s == "" {
		return nil, 0, false
	}
	if s[0] == '+' || s[0] == '-' {
		sign = s[0]
		s = s[1:]
	}
	if s == "" {
		return nil, sign, false
	}
	n = new(big.Int)
	bb := big.NewInt(int64(base))
	for i := 0; i < len(s); i++ {
		c := s[i]
		var d int
		switch {
		case c >= '0' && c <= '9':
			d = int(c - '0')
		case c >= 'a' && c <= 'z':
			d = int(c-'a') + 10
		case c >= 'A' && c <= 'Z':
			d = int(c-'A') + 10
		default:
			return nil, sign, false
		}
		if d >= base {
			return nil, sign, false
		}
		n.Mul(n, bb)
		n.Add(n, big.NewInt(int64(d)))
	}
	if sign == '-' {
		n.Neg(n)
	}
	return n, sign, true
}

func setIntKind(k Kind, n *big.Int) interface{} {
	switch k {
	case KInt:
		return int(n.Int64())
	case KInt8:
		return int8(n.Int64())
	case KLvl:
		return Lvl(n.Int64())
	case KInt16:
		return int16(n.Int64())
	case KInt32:
		return int32(n.Int64())
	case KInt64:
		return n.Int64()
	case KUint:
		return uint(n.Uint64())
	case KUint8:
		return uint8(n.Uint64())
	case KUint16:
		return uint16(n.Uint64())
	case KUint32:
		return uint32(n.Uint64())
	case KUint64:
		return n.Uint64()
	}
	panic("not int kind")
}

// IntLimits returns min and max of an integer kind.
func IntLimits(k Kind) (*big.Int, *big.Int) {
	bits := uint(intBits[k])
	one := big.NewInt(1)
	if isSignedInt(k) {
		max := new(big.Int).Sub(new(big.Int).Lsh(one, bits-1), one)
		min := new(big.Int).Neg(new(big.Int).Lsh(one, bits-1))
		return min, max
	}
	max := new(big.Int).Sub(new(big.Int).Lsh(one, bits), one)
	return big.NewInt(0), max
}

// RefScalar converts text to a scalar kind.
func RefScalar(k Kind, base int, s string) (interface{}, Verdict) {
	if base == 0 {
		base = 10
	}
	switch k {
	case KString:
		return s, Accept
	case KComp:
		return Comp(s), Accept
	case KValid:
		return Valid(s), Accept
	case KUpper:
		if strings.Contains(s, "!bad") {
			return nil, Reject
		}
		if s == "" {
			return Upper(""), Accept
		}
		return Upper("U:" + s), Accept
	case KTri:
		switch s {
		case "on", "":
			return Tri(true), Accept
		case "off":
			return Tri(false), Accept
		}
		return nil, Reject
	case KBool:
		if s == "" {
			// an empty text where a boolean value is expected (the value part of
			// a map entry "k:" or "k"): an occurrence without value means true for
			// flags; whether that carries over is not stated anywhere
			return true, DontCare
		}
		switch s {
		case "1", "t", "T", "TRUE", "true", "True":
			return true, Accept
		case "0", "f", "F", "FALSE", "false", "False":
			return false, Accept
		}
		return nil, Reject
	case KFloat32, KFloat64:
		bits := 64
		if k == KFloat32 {
			bits = 32
		}
		f, err := strconv.ParseFloat(s, bits)
		if err != nil {
			return nil, Reject
		}
		if k == KFloat32 {
			return float32(f), Accept
		}
		return f, Accept
	case KDuration:
		d, err := time.ParseDuration(s)
		if err != nil {
			return nil, Reject
		}
		return d, Accept
	}
	if _, isInt := intBits[k]; isInt {
		n, sign, ok := refBigInt(s, base)
		if !ok {
			return nil, Reject
		}
		min, max := IntLimits(k)
		if n.Cmp(min) < 0 || n.Cmp(max) > 0 {
			return nil, Reject
		}
		v := setIntKind(k, n)
		if isUnsignedInt(k) && sign != 0 {
			// "+5" / "-0" for an unsigned type: Go's convention rejects, the
			// documentation is silent.
			return v, DontCare
		}
		return v, Accept
	}
	panic("RefScalar: unsupported kind " + string(k))
}

// RefOne converts one occurrence's text for option kind k into its element:
// for slices the element, for maps a [2]interface{}{key,value}, for pointers the
// pointed-to value, for callbacks the argument.
func RefOne(k Kind, base int, s string) (interface{}, Verdict) {
	if k.IsMap() {
		kk, vk := k.MapKV()
		ks, vs := s, ""
		if i := strings.Index(s, ":"); i >= 0 {
			ks, vs = s[:i], s[i+1:]
		}
		kv, v1 := RefScalar(kk, base, ks)
		if v1 == Reject {
			return nil, Reject
		}
		vv, v2 := RefScalar(vk, base, vs)
		if v2 == Reject {
			return nil, Reject
		}
		ver := Accept
		if v1 == DontCare || v2 == DontCare {
			ver = DontCare
		}
		return [2]interface{}{kv, vv}, ver
	}
	return RefScalar(k.Elem(), base, s)
}

// Assemble builds the typed field value of kind k from element values produced
// by RefOne, in order.
func Assemble(k Kind, elems []interface{}) interface{} {
	t := k.Type()
	switch {
	case k.IsSlice():
		v := reflect.MakeSlice(t, 0, len(elems))
		for _, e := range elems {
			v = reflect.Append(v, reflect.ValueOf(e))
		}
		return v.Interface()
	case k.IsMap():
		v := reflect.MakeMap(t)
		for _, e := range elems {
			kv := e.([2]interface{})
			v.SetMapIndex(reflect.ValueOf(kv[0]), reflect.ValueOf(kv[1]))
		}
		return v.Interface()
	case k.IsPtr():
		if len(elems) == 0 {
			return reflect.Zero(t).Interface()
		}
		p := reflect.New(t.Elem())
		p.Elem().Set(reflect.ValueOf(elems[len(elems)-1]))
		return p.Interface()
	default:
		if len(elems) == 0 {
			return reflect.Zero(t).Interface()
		}
		return elems[len(elems)-1]
	}
}

// RefValue builds a typed value from texts; any non-accepted text is an error.
func RefValue(k Kind, base int, texts []string) (interface{}, error) {
	var elems []interface{}
	for _, s := range texts {
		e, v := RefOne(k, base, s)
		if v != Accept {
			return nil, fmt.Errorf("text %q not accepted for %s", s, k)
		}
		elems = append(elems, e)
	}
	return Assemble(k, elems), nil
}

// ValEqual is deep equality with NaN == NaN, nil and empty slices/maps
// identified, pointers compared by pointee.
// SignedZerosEqual makes ValEqual identify -0 and +0 (set by checks whose
// property speaks about numbers rather than bit patterns).
var SignedZerosEqual = false

func ValEqual(a, b interface{}) bool {
	return valEq(reflect.ValueOf(a), reflect.ValueOf(b))
}

func valEq(a, b reflect.Value) bool {
	if !a.IsValid() || !b.IsValid() {
		return a.IsValid() == b.IsValid()
	}
	if a.Type() != b.Type() {
		return false
	}
	switch a.Kind() {
	case reflect.Float32, reflect.Float64:
		x, y := a.Float(), b.Float()
		if math.IsNaN(x) || math.IsNaN(y) {
			return math.IsNaN(x) && math.IsNaN(y)
		}
		return x == y && (SignedZerosEqual || math.Signbit(x) == math.Signbit(y))
	case reflect.Slice:
		if a.Len() != b.Len() {
			return false
		}
		for i := 0; i < a.Len(); i++ {
			if !valEq(a.Index(i), b.Index(i)) {
				return false
			}
		}
		return true
	case reflect.Map:
		if a.Len() != b.Len() {
			return false
		}
		// (keys are matched with valEq so that NaN keys, which cannot be looked
		// up, are handled too)
		bkeys := b.MapKeys()
		used := make([]bool, len(bkeys))
		ia, ib := a.MapRange(), 0
		for ia.Next() {
			found := false
			for ib = range bkeys {
				if used[ib] || !valEq(ia.Key(), bkeys[ib]) {
					continue
				}
				ibv := b.MapRange()
				// locate the value of bkeys[ib] by iteration (MapIndex fails for NaN)
				for ibv.Next() {
					if valEq(ibv.Key(), bkeys[ib]) && valEq(ia.Value(), ibv.Value()) {
						found = true
						break
					}
				}
				if found {
					used[ib] = true
					break
				}
			}
			if !found {
				return false
			}
		}
		return true
	case reflect.Ptr:
		if a.IsNil() || b.IsNil() {
			return a.IsNil() == b.IsNil()
		}
		return valEq(a.Elem(), b.Elem())
	case reflect.Func:
		return true
	}
	return reflect.DeepEqual(a.Interface(), b.Interface())
}

func ShowVal(v interface{}) string {
	rv := reflect.ValueOf(v)
	if rv.IsValid() && rv.Kind() == reflect.Ptr {
		if rv.IsNil() {
			return "<nil>"
		}
		return "&" + ShowVal(rv.Elem().Interface())
	}
	return fmt.Sprintf("%#v", v)
}
