package props

// Reference semantics R: an interpreter over Decl written from the package
// documentation and the property statements (DESIGN.md §3.2). It predicts the
// outcome of Parser.ParseArgs: final option values, positional bindings,
// remaining arguments, active command chain, callback log, execution, error
// type. Where the documentation does not settle a construct R sets
// Undetermined and the caller skips (and counts) the case.

import (
	"fmt"
	"sort"
	"strconv"
	"strings"
	"unicode/utf8"

	flags "github.com/jessevdk/go-flags"
)

type HandlerSpec struct {
	Mode string   `json:"mode"` // "same" | "drop1" | "replace" | "error"
	Repl []string `json:"repl,omitempty"`
}

type HandlerCall struct {
	Name   string   `json:"name"`
	Arg    string   `json:"arg"`
	HasArg bool     `json:"has_arg"`
	Args   []string `json:"args"`
}

type RefInput struct {
	D       *Decl
	Args    []string
	Env     map[string]string
	Handler *HandlerSpec
	// PreSet: options that already have an explicit value before the command
	// line is parsed (read from INI): id -> element values. Used by C05.
	PreSet map[string][]interface{}
	// WalkOnly: stop after the token loop (no defaults/required/command checks)
	WalkOnly bool
}

type RefErr struct {
	Types   []flags.ErrorType // acceptable types (flags.Error) - empty with Foreign
	Foreign bool              // a non-*flags.Error error is expected/allowed
	Name    string            // unknown flag name / option display name
	Missing []string          // ErrRequired: exact names expected in the message
	Why     string
}

func (e *RefErr) String() string {
	if e == nil {
		return "<nil>"
	}
	return fmt.Sprintf("%v foreign=%v name=%q missing=%q (%s)", e.Types, e.Foreign, e.Name, e.Missing, e.Why)
}

// TokClass classifies what happened to an argv token.
type TokClass int

const (
	TcOption TokClass = iota
	TcOptArg
	TcCommand
	TcTerminator
	TcPositional
	TcRest
	TcUnparsed
)

type RefResult struct {
	Undetermined string
	Err          *RefErr
	Vals         map[string]interface{} // opt ID -> final value (non-callback)
	Occ          map[string]int         // opt ID -> number of explicit occurrences
	PosVals      map[string]interface{} // cmdID/field -> value
	PosBound     []string
	Rest         []string
	Chain        []*Cmd // active commands below the root
	CbLog        []CbEntry
	ExecCmd      string // ID of the command expected to execute ("" none)
	ExecNilCmd   bool   // CommandHandler(nil, ...) expected (innermost is not a Commander)
	Handler      []HandlerCall
	Class        []TokClass // per original argv index
	Sources      map[string]string
	TokOpt       map[int][]string // argv index of an option token -> option IDs it named
	run          *refRun
}

type helpMarker struct{}

type scopeT struct {
	short map[string]*OptInfo
	long  map[string]*OptInfo
}

type tok struct {
	s   string
	idx int
}

type refRun struct {
	in         *RefInput
	d          *Decl
	res        *RefResult
	ctx        *Cmd
	chain      []*Cmd // root..ctx
	sc         scopeT
	pending    []*PosArg
	posCmd     *Cmd
	posEl      map[string][]interface{}
	occ        map[string][]interface{} // opt id -> element values so far
	occN       map[string]int
	args       []tok
	helpOpt    *OptInfo
	replDone   bool
	unknownCmd bool // the walk stopped at a word that is no command although one is required
	curIdx     int
	optsOf     map[*Cmd][]*OptInfo
}

var helpOptDecl = Opt{ID: "__help", Field: "ShowHelp", Kind: KFunc0, Short: "h", Long: "help", Desc: "Show this help message"}

func (r *refRun) cmdOpts(c *Cmd, chain []*Cmd) []*OptInfo {
	if o, ok := r.optsOf[c]; ok {
		return o
	}
	o := r.d.CmdOpts(c, chain)
	r.optsOf[c] = o
	return o
}

func (r *refRun) buildScope() {
	sc := scopeT{short: map[string]*OptInfo{}, long: map[string]*OptInfo{}}
	for i, c := range r.chain {
		for _, o := range r.cmdOpts(c, r.chain[:i+1]) {
			if o.Short != "" {
				sc.short[o.Short] = o
			}
			if o.Long != "" {
				sc.long[o.NsLong] = o
			}
		}
		if r.d.Has(flags.HelpFlag) {
			// every command gets a help group of its own; its long name
			// carries the namespaces assigned to the commands above it
			name := "help"
			for j := i; j >= 0; j-- {
				if ns := r.chain[j].G.Namespace; ns != "" {
					name = ns + r.d.NsD() + name
				}
			}
			sc.short["h"] = r.helpOpt
			sc.long[name] = r.helpOpt
		}
	}
	r.sc = sc
}

func (r *refRun) enter(c *Cmd) {
	r.ctx = c
	r.chain = append(r.chain, c)
	r.pending = nil
	r.posCmd = c
	if c.Pos != nil {
		for i := range c.Pos.Args {
			r.pending = append(r.pending, &c.Pos.Args[i])
		}
	}
	r.buildScope()
}

func isOptSyntax(a string) bool {
	if len(a) > 1 && a[0] == '-' && a[1] != '-' {
		return true
	}
	if len(a) > 2 && a[0] == '-' && a[1] == '-' && a[2] != '-' {
		return true
	}
	return false
}

func (r *refRun) childWord(w string) *Cmd {
	for i := range r.ctx.Cmds {
		c := &r.ctx.Cmds[i]
		if c.Name == w {
			return c
		}
		for _, a := range c.Aliases {
			if a == w {
				return c
			}
		}
	}
	return nil
}

func (r *refRun) class(t tok, c TokClass) {
	if t.idx >= 0 && t.idx < len(r.res.Class) {
		r.res.Class[t.idx] = c
	}
}

// pass sends tokens to unfilled positionals, then to the remaining arguments.
func (r *refRun) pass(ts ...tok) *RefErr {
	for _, t := range ts {
		if len(r.pending) > 0 {
			pa := r.pending[0]
			e, ver := RefOne(pa.Kind, 0, t.s)
			if ver == DontCare {
				r.res.Undetermined = "positional value with unsettled conversion"
				return nil
			}
			if ver == Reject {
				return &RefErr{Foreign: true, Types: []flags.ErrorType{flags.ErrMarshal}, Name: pa.Name, Why: "positional conversion of " + strconv.Quote(t.s)}
			}
			key := r.posCmd.ID + "/" + pa.Field
			r.posEl[key] = append(r.posEl[key], e)
			r.res.PosBound = append(r.res.PosBound, t.s)
			r.class(t, TcPositional)
			if !pa.Kind.IsSlice() {
				r.pending = r.pending[1:]
			}
			continue
		}
		r.res.Rest = append(r.res.Rest, t.s)
		r.class(t, TcRest)
	}
	return nil
}

func (r *refRun) pop() tok {
	t := r.args[0]
	r.args = r.args[1:]
	return t
}

// applyText: one value text for option o (choice check, conversion, store/call).
func (r *refRun) applyText(o *OptInfo, text string) *RefErr {
	if len(o.Choices) > 0 {
		found := false
		for _, c := range o.Choices {
			if c == text {
				found = true
			}
		}
		if !found {
			return &RefErr{Types: []flags.ErrorType{flags.ErrInvalidChoice}, Name: o.Display(), Why: "value " + strconv.Quote(text) + " not among choices"}
		}
	}
	e, ver := RefOne(o.Kind, o.Base, text)
	switch ver {
	case DontCare:
		r.res.Undetermined = "value with unsettled conversion: " + strconv.Quote(text)
		return nil
	case Reject:
		return &RefErr{Types: []flags.ErrorType{flags.ErrMarshal}, Name: o.Display(), Why: "conversion of " + strconv.Quote(text) + " to " + string(o.Kind)}
	}
	if o.Kind.IsFunc() {
		if o.Kind == KFuncSS {
			e = []string{e.(string)}
		}
		r.res.CbLog = append(r.res.CbLog, CbEntry{Opt: o.ID, Arg: e})
		if o.CbErr {
			return &RefErr{Types: []flags.ErrorType{flags.ErrMarshal}, Foreign: true, Name: o.Display(), Why: "option callback returned an error"}
		}
	}
	r.occ[o.ID] = append(r.occ[o.ID], e)
	return nil
}

// occurrence handles one occurrence of option o. inline: attached argument;
// canNext: this spelling may take the next token as argument.
func (r *refRun) occurrence(o *OptInfo, inline *string, canNext bool) *RefErr {
	if r.curIdx >= 0 {
		r.res.TokOpt[r.curIdx] = append(r.res.TokOpt[r.curIdx], o.ID)
	}
	if o == r.helpOpt {
		if inline != nil {
			return &RefErr{Types: []flags.ErrorType{flags.ErrNoArgumentForBool}, Name: "-h, --help", Why: "argument for help flag"}
		}
		return &RefErr{Types: []flags.ErrorType{flags.ErrHelp}, Why: "help requested"}
	}
	if o.Kind.IsFlag() {
		if inline != nil {
			return &RefErr{Types: []flags.ErrorType{flags.ErrNoArgumentForBool}, Name: o.Display(), Why: "argument for flag"}
		}
		if len(o.Choices) > 0 {
			r.res.Undetermined = "flag with choices"
			return nil
		}
		r.occN[o.ID]++
		switch o.Kind {
		case KFunc0, KFunc0E:
			r.res.CbLog = append(r.res.CbLog, CbEntry{Opt: o.ID})
			r.occ[o.ID] = append(r.occ[o.ID], nil)
			if o.CbErr {
				return &RefErr{Types: []flags.ErrorType{flags.ErrMarshal}, Foreign: true, Name: o.Display(), Why: "option callback returned an error"}
			}
		default:
			r.occ[o.ID] = append(r.occ[o.ID], true)
		}
		return nil
	}
	var text string
	switch {
	case inline != nil:
		text = *inline
	case canNext && !o.IsOptional() && len(r.args) > 0:
		t := r.pop()
		if o.Kind.Elem() == KValid {
			// the type decides itself which separate tokens are arguments
			if !ValidAccepts(t.s) {
				return &RefErr{Types: []flags.ErrorType{flags.ErrExpectedArgument}, Name: o.Display(), Why: "token refused by the option type's own validator"}
			}
		} else if isOptSyntax(t.s) {
			// documented exception: a negative number given to a signed numeric option
			negNum := false
			if o.Kind.IsSignedNum() && t.s[0] == '-' {
				if _, ver := RefOne(o.Kind, o.Base, t.s); ver == Accept {
					negNum = true
				} else if t.s[1] >= '0' && t.s[1] <= '9' {
					// number-like but not a number of this type: a rejection
					// is due, as a missing argument or as a bad value
					ts := []flags.ErrorType{flags.ErrExpectedArgument, flags.ErrMarshal}
					if len(o.Choices) > 0 {
						ts = append(ts, flags.ErrInvalidChoice)
					}
					return &RefErr{Types: ts, Name: o.Display(), Why: "number-like option-looking token that is no number of the option's type"}
				}
			}
			if !negNum {
				return &RefErr{Types: []flags.ErrorType{flags.ErrExpectedArgument}, Name: o.Display(), Why: "option-looking token where an argument was expected"}
			}
		}
		if r.d.Has(flags.PassDoubleDash) && t.s == "--" {
			return &RefErr{Types: []flags.ErrorType{flags.ErrExpectedArgument}, Name: o.Display(), Why: "terminator where an argument was expected"}
		}
		r.class(t, TcOptArg)
		text = t.s
	case o.IsOptional():
		r.occN[o.ID]++
		if len(o.OptVals) == 0 {
			r.res.Undetermined = "optional argument without optional-value"
			return nil
		}
		for _, v := range o.OptVals {
			if e := r.applyText(o, v); e != nil {
				return e
			}
		}
		return nil
	default:
		return &RefErr{Types: []flags.ErrorType{flags.ErrExpectedArgument}, Name: o.Display(), Why: "no argument"}
	}
	r.occN[o.ID]++
	if o.Unquote != "false" && len(text) > 0 && text[0] == '"' {
		u, err := strconv.Unquote(text)
		if err != nil {
			return &RefErr{Types: []flags.ErrorType{flags.ErrMarshal}, Name: o.Display(), Why: "bad quoting"}
		}
		text = u
	}
	return r.applyText(o, text)
}

func (r *refRun) unknown(t tok, name string, inline *string, cluster bool) (*RefErr, bool) {
	switch {
	case r.d.Has(flags.IgnoreUnknown):
		if e := r.pass(t); e != nil {
			// conversion failure of an ignored option bound to a positional:
			// the parse fails, which error wins is not settled
			e.Types = nil
			e.Foreign = true
			return e, true
		}
		return nil, false
	case r.in.Handler != nil:
		h := r.in.Handler
		call := HandlerCall{Name: name}
		if inline != nil {
			call.Arg, call.HasArg = *inline, true
		}
		for _, a := range r.args {
			call.Args = append(call.Args, a.s)
		}
		if cluster {
			call.Name = "\x00cluster"
		}
		r.res.Handler = append(r.res.Handler, call)
		switch h.Mode {
		case "drop1":
			if len(r.args) > 0 {
				r.class(r.args[0], TcOptArg)
				r.args = r.args[1:]
			}
		case "replace":
			if !r.replDone {
				r.replDone = true
				r.args = nil
				for _, s := range h.Repl {
					r.args = append(r.args, tok{s, -1})
				}
			}
		case "error":
			return &RefErr{Foreign: true, Why: "handler error"}, true
		}
		return nil, false
	}
	return &RefErr{Types: []flags.ErrorType{flags.ErrUnknownFlag}, Name: name, Why: "unknown option"}, true
}

// Ref runs the reference semantics.
func Ref(in *RefInput) *RefResult {
	d := in.D
	res := &RefResult{
		Vals: map[string]interface{}{}, Occ: map[string]int{}, PosVals: map[string]interface{}{},
		Class: make([]TokClass, len(in.Args)), Sources: map[string]string{}, TokOpt: map[int][]string{},
	}
	for i := range res.Class {
		res.Class[i] = TcUnparsed
	}
	ho := helpOptDecl
	r := &refRun{in: in, d: d, res: res, posEl: map[string][]interface{}{}, occ: map[string][]interface{}{},
		occN: map[string]int{}, optsOf: map[*Cmd][]*OptInfo{}}
	r.helpOpt = &OptInfo{Opt: &ho}
	for i, a := range in.Args {
		r.args = append(r.args, tok{a, i})
	}
	r.enter(&d.Root)

	fail := func(e *RefErr) *RefResult {
		res.Err = e
		res.Chain = r.chain[1:]
		return res
	}

loop:
	for len(r.args) > 0 && res.Undetermined == "" {
		t := r.pop()
		if d.Has(flags.PassDoubleDash) && t.s == "--" {
			r.class(t, TcTerminator)
			if e := r.pass(r.args...); e != nil {
				return fail(e)
			}
			r.args = nil
			break
		}
		if !isOptSyntax(t.s) {
			if d.Has(flags.PassAfterNonOption) && r.childWord(t.s) == nil {
				if e := r.pass(t); e != nil {
					return fail(e)
				}
				if e := r.pass(r.args...); e != nil {
					return fail(e)
				}
				r.args = nil
				break
			}
			if len(r.pending) > 0 {
				if e := r.pass(t); e != nil {
					return fail(e)
				}
				continue
			}
			if len(r.ctx.Cmds) > 0 && len(res.Rest) == 0 {
				if c := r.childWord(t.s); c != nil {
					r.class(t, TcCommand)
					r.enter(c)
					continue
				}
				if !r.ctx.SubOpt {
					// unknown command word: parsing stops here; the
					// diagnosis is made after defaults/required checks
					r.pass(t)
					r.unknownCmd = true
					break loop
				}
			}
			r.pass(t)
			continue
		}
		// option token
		r.class(t, TcOption)
		r.curIdx = t.idx
		if strings.HasPrefix(t.s, "--") {
			body := t.s[2:]
			name := body
			var inline *string
			if i := strings.Index(body, "="); i >= 0 {
				name = body[:i]
				v := body[i+1:]
				inline = &v
			}
			o := r.sc.long[name]
			if o == nil {
				if e, stop := r.unknown(t, name, inline, false); stop {
					return fail(e)
				}
				continue
			}
			if e := r.occurrence(o, inline, true); e != nil {
				return fail(e)
			}
			continue
		}
		body := t.s[1:]
		first, n := utf8.DecodeRuneInString(body)
		if first == utf8.RuneError && n <= 1 {
			res.Undetermined = "short token with invalid UTF-8"
			break
		}
		if len(body) > n && body[n] == '=' {
			name := string(first)
			v := body[n+1:]
			o := r.sc.short[name]
			if o == nil {
				if e, stop := r.unknown(t, name, &v, false); stop {
					return fail(e)
				}
				continue
			}
			if e := r.occurrence(o, &v, false); e != nil {
				return fail(e)
			}
			continue
		}
		if o := r.sc.short[string(first)]; o != nil && !o.Kind.IsFlag() && o != r.helpOpt && len(body) > n {
			v := body[n:]
			if e := r.occurrence(o, &v, false); e != nil {
				return fail(e)
			}
			continue
		}
		// (an attached value is taken byte for byte; a cluster is read rune by rune)
		if !utf8.ValidString(body) {
			res.Undetermined = "short token with invalid UTF-8"
			break
		}
		runes := []rune(body)
		for i, c := range runes {
			o := r.sc.short[string(c)]
			if o == nil {
				if i > 0 && (d.Has(flags.IgnoreUnknown) || r.in.Handler != nil) {
					res.Undetermined = "cluster with a known prefix and an unknown rune under a pass-through policy"
					break loop
				}
				name := string(c)
				if len(runes) > 1 {
					// the name given to a handler for a multi-rune token is
					// not settled by the documentation
					if e, stop := r.unknown(t, name, nil, true); stop {
						return fail(e)
					}
				} else if e, stop := r.unknown(t, name, nil, false); stop {
					return fail(e)
				}
				break
			}
			if e := r.occurrence(o, nil, i == len(runes)-1); e != nil {
				return fail(e)
			}
			if res.Undetermined != "" {
				break loop
			}
		}
	}
	res.Chain = r.chain[1:]
	res.run = r
	if res.Undetermined != "" || in.WalkOnly {
		return res
	}

	// ---- rule 8: defaults for every option of the whole tree ----
	supplied := map[string]bool{}
	var defErrs []*RefErr
	d.EachCmd(func(c *Cmd, chain []*Cmd) {
		for _, o := range r.cmdOpts(c, chain) {
			if o.Kind.IsFunc() {
				if r.occN[o.ID] > 0 {
					supplied[o.ID] = true
					res.Sources[o.ID] = "cli"
					continue
				}
				if o.Kind.IsFlag() {
					continue
				}
				// a callback that takes an argument and was not given: called once
				// per value of its environment variable or else of its default tags
				texts, src := o.Defaults, "default"
				if o.EnvKey != "" {
					if v, ok := in.Env[o.EnvKey]; ok {
						src = "env"
						if o.EnvDelim != "" {
							texts = strings.Split(v, o.EnvDelim)
						} else {
							texts = []string{v}
						}
					}
				}
				if len(texts) == 0 {
					continue
				}
				supplied[o.ID] = true
				res.Sources[o.ID] = src
				for _, tx := range texts {
					if len(o.Choices) > 0 {
						found := false
						for _, ch := range o.Choices {
							if ch == tx {
								found = true
							}
						}
						if !found {
							defErrs = append(defErrs, &RefErr{Types: []flags.ErrorType{flags.ErrInvalidChoice}, Name: o.Display(), Why: src + " value not among choices"})
							break
						}
					}
					e, ver := RefOne(o.Kind, o.Base, tx)
					if ver == DontCare {
						res.Undetermined = "default/env value with unsettled conversion"
						return
					}
					if ver == Reject {
						defErrs = append(defErrs, &RefErr{Types: []flags.ErrorType{flags.ErrMarshal}, Name: o.Display(), Why: src + " value " + strconv.Quote(tx) + " not convertible"})
						break
					}
					if o.Kind == KFuncSS {
						e = []string{e.(string)}
					}
					res.CbLog = append(res.CbLog, CbEntry{Opt: o.ID, Arg: e})
					if o.CbErr {
						defErrs = append(defErrs, &RefErr{Types: []flags.ErrorType{flags.ErrMarshal}, Foreign: true, Name: o.Display(), Why: "option callback returned an error"})
						break
					}
				}
				continue
			}
			res.Occ[o.ID] = r.occN[o.ID]
			if r.occN[o.ID] > 0 {
				supplied[o.ID] = true
				res.Vals[o.ID] = r.flagOrElems(o, r.occ[o.ID])
				res.Sources[o.ID] = "cli"
				continue
			}
			if pre, ok := in.PreSet[o.ID]; ok {
				supplied[o.ID] = true
				res.Vals[o.ID] = r.flagOrElems(o, pre)
				res.Sources[o.ID] = "ini"
				continue
			}
			texts := o.Defaults
			src := "default"
			if o.EnvKey != "" {
				if v, ok := in.Env[o.EnvKey]; ok {
					src = "env"
					if o.EnvDelim != "" {
						texts = strings.Split(v, o.EnvDelim)
					} else {
						texts = []string{v}
					}
				}
			}
			if len(texts) == 0 {
				res.Sources[o.ID] = "initial"
				iv, err := RefValue(o.Kind, o.Base, o.Initial)
				if err != nil {
					panic(err)
				}
				res.Vals[o.ID] = iv
				continue
			}
			supplied[o.ID] = true
			res.Sources[o.ID] = src
			var elems []interface{}
			bad := false
			for _, tx := range texts {
				if len(o.Choices) > 0 {
					found := false
					for _, ch := range o.Choices {
						if ch == tx {
							found = true
						}
					}
					if !found {
						defErrs = append(defErrs, &RefErr{Types: []flags.ErrorType{flags.ErrInvalidChoice}, Name: o.Display(), Why: src + " value not among choices"})
						bad = true
						break
					}
				}
				var e interface{}
				var ver Verdict
				if o.Kind.IsFlag() {
					// flag set from the environment: empty text means true
					if tx == "" {
						e, ver = true, Accept
					} else {
						e, ver = RefScalar(KBool, 0, tx)
					}
				} else {
					e, ver = RefOne(o.Kind, o.Base, tx)
				}
				if ver == DontCare {
					res.Undetermined = "default/env value with unsettled conversion"
					return
				}
				if ver == Reject {
					defErrs = append(defErrs, &RefErr{Types: []flags.ErrorType{flags.ErrMarshal}, Name: o.Display(), Why: src + " value " + strconv.Quote(tx) + " not convertible"})
					bad = true
					break
				}
				elems = append(elems, e)
			}
			if !bad {
				if o.Kind.IsFlag() {
					res.Vals[o.ID] = r.flagFromBools(o, elems)
				} else {
					res.Vals[o.ID] = Assemble(o.Kind, elems)
				}
			}
		}
	})
	if res.Undetermined != "" {
		return res
	}
	// a rejected default/env value and a missing required item are two causes
	// for one rejection: either type is then in order
	var pendingDefErr *RefErr
	if len(defErrs) > 0 {
		e := &RefErr{Why: "default/env value rejected: " + defErrs[0].Why, Name: defErrs[0].Name}
		seen := map[flags.ErrorType]bool{}
		for _, de := range defErrs {
			if !seen[de.Types[0]] {
				seen[de.Types[0]] = true
				e.Types = append(e.Types, de.Types[0])
			}
		}
		if len(defErrs) > 1 {
			e.Name = ""
		}
		pendingDefErr = e
	}

	// positional values
	d.EachCmd(func(c *Cmd, chain []*Cmd) {
		if c.Pos == nil {
			return
		}
		for i := range c.Pos.Args {
			pa := &c.Pos.Args[i]
			key := c.ID + "/" + pa.Field
			res.PosVals[key] = Assemble(pa.Kind, r.posEl[key])
		}
	})

	// ---- required options along the active chain ----
	var missing []string
	for i, c := range r.chain {
		for _, o := range r.cmdOpts(c, r.chain[:i+1]) {
			if o.IsRequired() && !supplied[o.ID] {
				missing = append(missing, o.Display())
			}
		}
	}
	if len(missing) > 0 {
		sort.Strings(missing)
		if pendingDefErr != nil {
			pendingDefErr.Types = append(pendingDefErr.Types, flags.ErrRequired)
			pendingDefErr.Why += " (and required options missing)"
			return fail(pendingDefErr)
		}
		return fail(&RefErr{Types: []flags.ErrorType{flags.ErrRequired}, Missing: missing, Why: "required options missing"})
	}
	// ---- positional count constraints of the innermost command ----
	var unmet []string
	for _, pa := range r.pending {
		min, max := posReq(pa)
		key := r.posCmd.ID + "/" + pa.Field
		if pa.Kind.IsSlice() {
			n := len(r.posEl[key])
			if min == -1 && max == -1 {
				continue
			}
			if n < min {
				if min > 1 {
					unmet = append(unmet, fmt.Sprintf("%s (at least %d arguments, but got only %d)", pa.DisplayName(), min, n))
				} else {
					unmet = append(unmet, fmt.Sprintf("%s (at least %d argument)", pa.DisplayName(), min))
				}
			} else if max != -1 && n > max {
				switch {
				case max == 0:
					unmet = append(unmet, fmt.Sprintf("%s (zero arguments)", pa.DisplayName()))
				case max > 1:
					unmet = append(unmet, fmt.Sprintf("%s (at most %d arguments, but got %d)", pa.DisplayName(), max, n))
				default:
					unmet = append(unmet, fmt.Sprintf("%s (at most %d argument)", pa.DisplayName(), max))
				}
			}
			continue
		}
		if r.posCmd.Pos.Required != "" || min != -1 || max != -1 {
			unmet = append(unmet, pa.DisplayName())
		}
	}
	if len(unmet) > 0 {
		if pendingDefErr != nil {
			pendingDefErr.Types = append(pendingDefErr.Types, flags.ErrRequired)
			pendingDefErr.Why += " (and positional arguments missing)"
			return fail(pendingDefErr)
		}
		return fail(&RefErr{Types: []flags.ErrorType{flags.ErrRequired}, Missing: unmet, Why: "positional arguments missing"})
	}
	if pendingDefErr != nil {
		return fail(pendingDefErr)
	}
	// ---- command requirement ----
	if len(r.ctx.Cmds) > 0 && !r.ctx.SubOpt {
		if len(res.Rest) == 0 {
			return fail(&RefErr{Types: []flags.ErrorType{flags.ErrCommandRequired}, Why: "no command given"})
		}
		return fail(&RefErr{Types: []flags.ErrorType{flags.ErrUnknownCommand}, Name: res.Rest[0], Why: "unknown command word"})
	}
	// ---- execution ----
	if r.ctx != &d.Root && !r.ctx.ByTag {
		res.ExecCmd = r.ctx.ID
	} else {
		res.ExecNilCmd = true
	}
	return res
}

func (r *refRun) flagOrElems(o *OptInfo, elems []interface{}) interface{} {
	if o.Kind.IsFlag() {
		return r.flagFromBools(o, elems)
	}
	return Assemble(o.Kind, elems)
}

func (r *refRun) flagFromBools(o *OptInfo, elems []interface{}) interface{} {
	switch o.Kind {
	case KBool:
		return elems[len(elems)-1].(bool)
	case KToggle:
		return Toggle(elems[len(elems)-1].(bool))
	case KBoolPtr:
		b := elems[len(elems)-1].(bool)
		return &b
	case KBoolSlice:
		var s []bool
		for _, e := range elems {
			s = append(s, e.(bool))
		}
		return s
	}
	return nil
}

func (p *PosArg) DisplayName() string {
	if p.Name != "" {
		return p.Name
	}
	return p.Field
}

// posReq parses the per-field required tag: "" -> (-1,-1); "N" -> (N,-1);
// "N-M" -> (N,M).
func posReq(p *PosArg) (int, int) {
	if p.Req == "" {
		return -1, -1
	}
	min, max := 1, -1
	if i := strings.Index(p.Req, "-"); i >= 0 {
		if n, err := strconv.Atoi(p.Req[:i]); err == nil {
			min = n
		}
		if n, err := strconv.Atoi(p.Req[i+1:]); err == nil {
			max = n
		}
	} else if n, err := strconv.Atoi(p.Req); err == nil {
		min = n
	}
	return min, max
}

// WalkState is R's state after consuming a prefix of an argument vector.
type WalkState struct {
	Ctx     *Cmd
	Chain   []*Cmd
	Short   map[string]*OptInfo
	Long    map[string]*OptInfo
	Pending []*PosArg
	HelpOpt *OptInfo
	NRest   int
}

// WalkPrefix runs R's token loop over prefix; ok=false if the prefix itself is
// rejected or undetermined.
func WalkPrefix(d *Decl, prefix []string) (*WalkState, bool) {
	ref := Ref(&RefInput{D: d, Args: prefix, WalkOnly: true})
	if ref.Err != nil || ref.Undetermined != "" || ref.run.unknownCmd {
		return nil, false
	}
	r := ref.run
	return &WalkState{Ctx: r.ctx, Chain: r.chain, Short: r.sc.short, Long: r.sc.long, Pending: r.pending, HelpOpt: r.helpOpt, NRest: len(ref.Rest)}, true
}
