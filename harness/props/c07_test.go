package props

import (
	"fmt"
	"strings"
	"testing"

	flags "github.com/jessevdk/go-flags"
	"pgregory.net/rapid"
)

// C07: unknown options are never silently accepted.

var c07Decl = &GenCfg{Depth: 3, Fanout: 3, MaxOpts: 3, MaxGroups: 2, NestGroups: 2, Kinds: []Kind{KBool, KString, KInt, KStringSlice, KBoolSlice, KMapSS, KFloat64, KTri, KBoolPtr, KToggle},
	Pos: true, PosPct: 25, Ns: true, Req: 0, OptArg: true, Aliases: true, SubOpt: 40, NonASCII: true, CmdPct: 85, NsDelims: []string{"-", "::"}, Plain: true, NoFlag: true, ViaAdd: 3, StaticTwins: true,
	ParserOpts: []flags.Options{flags.PassDoubleDash, flags.HelpFlag, flags.PassAfterNonOption}}

var c07Argv = &ArgvCfg{MaxItems: 2, WOpt: 40, WCluster: 6, WCmd: 4, WPlain: 8, WTerm: 1, WUnknown: 30, WJunk: 2, WRepeat: 8, BadVal: 0, Quote: 4}

var _ = Register("C07", func() interface{} { return new(ParseCase) }, func(c interface{}) string { return c07Oracle(c.(*ParseCase)) })

func genC07(t *rapid.T) *ParseCase {
	d := genDecl(t, c07Decl)
	c := &ParseCase{D: d}
	switch rapid.IntRange(0, 3).Draw(t, "policy") {
	case 1:
		d.Opts |= uint(flags.IgnoreUnknown)
	case 3:
		// both: IgnoreUnknown is what the options say, a handler is installed
		// as well (the pass-through policy applies, the handler stays idle)
		d.Opts |= uint(flags.IgnoreUnknown)
		c.Handler = &HandlerSpec{Mode: rapid.SampledFrom([]string{"same", "drop1"}).Draw(t, "hmodeBoth")}
	case 2:
		c.Handler = &HandlerSpec{Mode: rapid.SampledFrom([]string{"same", "same", "drop1", "replace"}).Draw(t, "hmode")}
		if c.Handler.Mode == "replace" {
			c.Handler.Repl = rapid.SliceOfN(rapid.SampledFrom([]string{"w", "-a", "--ver=1", "x", "--zz", "add"}), 0, 3).Draw(t, "repl")
		}
	}
	c.Args = genArgv(t, d, c07Argv)
	if c.Handler == nil && !d.Has(flags.IgnoreUnknown) && rapid.IntRange(0, 2).Draw(t, "warmup") == 0 {
		// the same parser object parsed another vector before
		c.HasWarmup = true
		c.Warmup = genArgv(t, d, &ArgvCfg{MaxItems: 2, WOpt: 60, WCluster: 5, WCmd: 10, WPlain: 5, WRepeat: 10})
	}
	return c
}

func c07Oracle(c *ParseCase) string {
	st := S("C07")
	ref := Ref(&RefInput{D: c.D, Args: c.Args, Handler: c.Handler})
	if ref.Undetermined != "" {
		st.Label("R undetermined: " + ref.Undetermined)
		if c.D.Has(flags.IgnoreUnknown) {
			// "passed through verbatim": whatever comes back must be argv tokens in order
			rr := RunReal(c.D, c.Args, nil, nil)
			if rr.Panic == "" && rr.SetupErr == nil && rr.Err == nil {
				if ok, _ := isSubsequence(rr.Rest, c.Args); !ok {
					return fmt.Sprintf("IgnoreUnknown: remaining arguments %q are not argv tokens in their original order (argv %q)", rr.Rest, c.Args)
				}
			}
		}
		return ""
	}
	rr := RunReal(c.D, c.Args, nil, &RealCfg{Handler: c.Handler, Warmup: c.Warmup, HasWarmup: c.HasWarmup})
	if c.HasWarmup {
		st.Label("parser object had parsed another vector before")
	}
	if rr.Panic != "" || rr.SetupErr != nil {
		st.Label("skip: panic or setup error")
		return ""
	}
	policy := "none"
	if c.D.Has(flags.IgnoreUnknown) {
		policy = "ignore"
		if c.Handler != nil {
			st.Label("IgnoreUnknown with a handler installed as well")
			if len(rr.Handler) != 0 {
				return fmt.Sprintf("IgnoreUnknown is set, yet the unknown-option handler was called: %v", rr.Handler)
			}
		}
	} else if c.Handler != nil {
		policy = "handler:" + c.Handler.Mode
	}
	// unknown option tokens R saw (for the non-trivial rule)
	var names []string
	for _, o := range c.D.AllOpts() {
		if o.NsLong != "" {
			names = append(names, o.NsLong)
		}
		if o.Short != "" {
			names = append(names, o.Short)
		}
	}
	near := func(u string) bool {
		for _, n := range names {
			if n == u || strings.EqualFold(n, u) || strings.HasPrefix(n, u) || refLevenshtein(n, u) <= 1 {
				return true
			}
		}
		return false
	}
	switch policy {
	case "none":
		if ref.Err != nil && len(ref.Err.Types) == 1 && ref.Err.Types[0] == flags.ErrUnknownFlag {
			st.Label("none: unknown option expected")
			if near(ref.Err.Name) {
				st.Label("near miss / out-of-scope name")
				st.NonTrivial(c.Key(), map[string]interface{}{"args": c.Args, "unknown": ref.Err.Name, "policy": policy})
			}
			if rr.Err == nil {
				return fmt.Sprintf("option `%s' is not defined in the command context reached, but the parse succeeded", ref.Err.Name)
			}
			fe := FlagsErr(rr.Err)
			if fe == nil || fe.Type != flags.ErrUnknownFlag {
				return fmt.Sprintf("expected ErrUnknownFlag for `%s', got %T: %v", ref.Err.Name, rr.Err, firstLine(rr.Err.Error()))
			}
			if fe.Message != "unknown flag `"+ref.Err.Name+"'" {
				return fmt.Sprintf("ErrUnknownFlag message %q is not \"unknown flag `%s'\"", fe.Message, ref.Err.Name)
			}
		} else {
			st.Label("none: no unknown option first")
		}
		return ""
	case "ignore":
		if ref.Err != nil || rr.Err != nil {
			if ref.Err == nil && rr.Err != nil {
				if fe := FlagsErr(rr.Err); fe != nil && fe.Type == flags.ErrUnknownFlag {
					return fmt.Sprintf("IgnoreUnknown is set but the parse failed with %s", fe.Message)
				}
			}
			st.Label("ignore: not a successful parse")
			return ""
		}
		nign := 0
		for i, cl := range ref.Class {
			if (cl == TcRest || cl == TcPositional) && isOptSyntax(c.Args[i]) {
				nign++
				body := strings.TrimLeft(c.Args[i], "-")
				if j := strings.Index(body, "="); j >= 0 {
					body = body[:j]
				}
				if near(body) {
					st.Label("near miss / out-of-scope name")
					st.NonTrivial(c.Key(), map[string]interface{}{"args": c.Args, "policy": policy, "rest": ref.Rest})
				}
			}
		}
		st.Label(fmt.Sprintf("ignore: success, %d ignored", min(nign, 3)))
		if !strSliceEq(rr.Rest, ref.Rest) {
			return fmt.Sprintf("IgnoreUnknown: remaining arguments %q, expected %q (unknown options verbatim)", rr.Rest, ref.Rest)
		}
		if m := CheckPositionals(rr, ref); m != "" {
			return "IgnoreUnknown: " + m
		}
		if m := CheckValues(rr, ref); m != "" {
			return "IgnoreUnknown: parsing did not continue as expected: " + m
		}
		return ""
	}
	// handler
	st.Label(policy)
	if len(ref.Handler) > 0 {
		st.Label("handler expected to be called")
	}
	// the call log must agree as far as R got (on an error R stops early,
	// and so must the parser)
	if len(rr.Handler) != len(ref.Handler) {
		return fmt.Sprintf("unknown-option handler called %d times (%v), expected %d (%v)", len(rr.Handler), rr.Handler, len(ref.Handler), ref.Handler)
	}
	for i, w := range ref.Handler {
		g := rr.Handler[i]
		if w.Name != "\x00cluster" && g.Name != w.Name {
			return fmt.Sprintf("handler call %d: name %q, expected %q", i, g.Name, w.Name)
		}
		if g.HasArg != w.HasArg || g.Arg != w.Arg {
			return fmt.Sprintf("handler call %d for %q: inline argument (%q,%v), expected (%q,%v)", i, w.Name, g.Arg, g.HasArg, w.Arg, w.HasArg)
		}
		if !strSliceEq(g.Args, w.Args) {
			return fmt.Sprintf("handler call %d for %q: received args %q, expected exactly the not-yet-consumed %q", i, w.Name, g.Args, w.Args)
		}
		if near(w.Name) {
			st.Label("near miss / out-of-scope name")
			st.NonTrivial(c.Key()+policy, map[string]interface{}{"args": c.Args, "policy": policy, "calls": ref.Handler})
		}
	}
	if ref.Err == nil && rr.Err == nil {
		// what the handler returned is what was parsed next
		if !strSliceEq(rr.Rest, ref.Rest) {
			return fmt.Sprintf("handler policy: remaining arguments %q, expected %q", rr.Rest, ref.Rest)
		}
		if m := CheckValues(rr, ref); m != "" {
			return "handler policy: " + m
		}
	}
	return ""
}

func TestC07(t *testing.T) {
	S("C07").Rule = "declarations with sibling commands and nested namespaces x planned argv with unknown option tokens (near misses: case flip, one edit, truncated prefix, with/without namespace prefix, wrong delimiter; options of siblings or of commands named later; unknown runes; forms --u, --u=v, -u, -u=v, -uV) at random positions x policy {none, IgnoreUnknown, handler returning same / dropping one / a replacement}; under policy none a third of the cases parse another vector on the same parser object first; oracle: R (ErrUnknownFlag naming the first unknown name | verbatim pass-through and continued parsing | handler call log: name, inline argument, exactly the unconsumed args, returned slice parsed next). non-trivial: the unknown name is a near miss of a declared option or belongs to a sibling / not-yet-named command; distinct by (declaration signature, argv, policy)"
	runProp(t, "C07", genC07, c07Oracle)
}
