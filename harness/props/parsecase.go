package props

import (
	"errors"
	"fmt"
	"regexp"
	"sort"
	"strings"

	flags "github.com/jessevdk/go-flags"
)

// ParseCase is one command-line parse scenario (pure data).
type ParseCase struct {
	D          *Decl             `json:"decl"`
	Args       []string          `json:"args"`
	Env        map[string]string `json:"env,omitempty"`
	Handler    *HandlerSpec      `json:"handler,omitempty"`
	CmdHandler bool              `json:"cmd_handler,omitempty"`
	// ExecErr: what Execute returns: "" (nil), "help" (a *flags.Error of type
	// ErrHelp), "plain" (a foreign error)
	ExecErr string `json:"exec_err,omitempty"`
	// Ini: entries read from an INI file before the command line is parsed
	Ini []IniLine `json:"ini,omitempty"`
	// Warmup: argument vector parsed first on the same parser object
	Warmup    []string `json:"warmup,omitempty"`
	HasWarmup bool     `json:"has_warmup,omitempty"`
}

var errExecPlain = errors.New("sentinel: command failed")
var errExecHelp = &flags.Error{Type: flags.ErrHelp, Message: "help text of the command\nsecond line"}

func (c *ParseCase) execErr() error {
	switch c.ExecErr {
	case "help":
		return errExecHelp
	case "plain":
		return errExecPlain
	}
	return nil
}

func (c *ParseCase) Key() string {
	return declSig(c.D) + "|" + strings.Join(c.Args, "\x00")
}

// declSig is a compact signature of a declaration for distinctness hashing.
func declSig(d *Decl) string {
	var sb strings.Builder
	fmt.Fprintf(&sb, "%d/%s/", d.Opts, d.NsD())
	d.EachCmd(func(c *Cmd, chain []*Cmd) {
		fmt.Fprintf(&sb, "[%s%v%v%v", c.Name, c.Aliases, c.ByTag, c.SubOpt)
		for _, o := range d.CmdOpts(c, chain) {
			fmt.Fprintf(&sb, "(%s,%s,%s,%v,%v,%v,%v,%v,%d)", o.Kind, o.Short, o.NsLong, o.Defaults, o.OptVals, o.Choices, o.Required != "", o.Initial, o.Base)
		}
		if c.Pos != nil {
			for _, a := range c.Pos.Args {
				fmt.Fprintf(&sb, "<%s,%s>", a.Kind, a.Req)
			}
			sb.WriteString(c.Pos.Required)
		}
		sb.WriteString("]")
	})
	return sb.String()
}

var (
	reqOptRe = regexp.MustCompile("`([^`']*)'")
	reqArgRe = regexp.MustCompile("`([^`]*)`")
)

// requiredNames extracts the names listed in an ErrRequired message.
func requiredNames(msg string) []string {
	var r []string
	if strings.Contains(msg, "required flag") {
		for _, m := range reqOptRe.FindAllStringSubmatch(msg, -1) {
			r = append(r, m[1])
		}
	} else {
		for _, m := range reqArgRe.FindAllStringSubmatch(msg, -1) {
			r = append(r, m[1])
		}
	}
	return r
}

// Aspect bits select what CompareAll checks.
type Aspect uint

const (
	AValues Aspect = 1 << iota
	ARest
	APos
	AChain
	AExec
	AErrType
	AErrDetail
	AOutcome // success/failure agreement
	AAll     = AValues | ARest | APos | AChain | AExec | AErrType | AErrDetail | AOutcome
)

type CompareOut struct {
	Ref  *RefResult
	Real *RealResult
	Skip string // non-empty: R undetermined
}

// CompareAll runs the reference semantics and the real parser on the case and
// compares the selected aspects.
func CompareAll(c *ParseCase, asp Aspect) (string, *CompareOut) {
	out := &CompareOut{}
	ref := Ref(&RefInput{D: c.D, Args: c.Args, Env: c.Env, Handler: c.Handler})
	out.Ref = ref
	if ref.Undetermined != "" {
		out.Skip = ref.Undetermined
		return "", out
	}
	rr := RunReal(c.D, c.Args, c.Env, &RealCfg{Handler: c.Handler, CmdHandler: c.CmdHandler})
	out.Real = rr
	if rr.Panic != "" {
		return rr.Panic, out
	}
	if rr.SetupErr != nil {
		return "unexpected setup error: " + rr.SetupErr.Error(), out
	}
	if ref.Err != nil {
		if rr.Err == nil {
			if asp&AOutcome != 0 {
				return fmt.Sprintf("parse succeeded (rest %q) but an error was expected: %s", rr.Rest, ref.Err), out
			}
			return "", out
		}
		if asp&AErrType != 0 {
			if m := CheckErrType(rr.Err, ref.Err); m != "" {
				return m, out
			}
		}
		if asp&AErrDetail != 0 {
			if fe := FlagsErr(rr.Err); fe != nil {
				switch fe.Type {
				case flags.ErrRequired:
					if len(ref.Err.Missing) > 0 {
						got := requiredNames(fe.Message)
						sort.Strings(got)
						want := append([]string(nil), ref.Err.Missing...)
						sort.Strings(want)
						if !strSliceEq(got, want) {
							return fmt.Sprintf("ErrRequired names %q, expected exactly %q (message %q)", got, want, fe.Message), out
						}
					}
				case flags.ErrUnknownFlag:
					if ref.Err.Name != "" && !strings.Contains(fe.Message, "`"+ref.Err.Name+"'") {
						return fmt.Sprintf("ErrUnknownFlag message %q does not name `%s'", fe.Message, ref.Err.Name), out
					}
				}
			}
		}
		if asp&AExec != 0 {
			if len(rr.B.ExecLog) != 0 || len(rr.CmdHand) != 0 {
				return fmt.Sprintf("parse failed (%v) but something was executed: exec=%v handler=%v", rr.Err, rr.B.ExecLog, rr.CmdHand), out
			}
		}
		return "", out
	}
	// R: success
	if rr.Err != nil {
		if asp&AOutcome != 0 {
			return fmt.Sprintf("parse failed with %T %v but success was expected (rest %q)", rr.Err, firstLine(rr.Err.Error()), ref.Rest), out
		}
		return "", out
	}
	if asp&AValues != 0 {
		if m := CheckValues(rr, ref); m != "" {
			return m, out
		}
	}
	if asp&APos != 0 {
		if m := CheckPositionals(rr, ref); m != "" {
			return m, out
		}
	}
	if asp&ARest != 0 {
		if !strSliceEq(rr.Rest, ref.Rest) {
			return fmt.Sprintf("remaining arguments %q, expected %q", rr.Rest, ref.Rest), out
		}
	}
	if asp&AChain != 0 {
		if got, want := rr.B.ActiveChain(), chainNames(ref.Chain); !strSliceEq(got, want) {
			return fmt.Sprintf("active command chain %q, expected %q", got, want), out
		}
	}
	if asp&AExec != 0 {
		if m := CheckExec(c, rr, ref); m != "" {
			return m, out
		}
	}
	return "", out
}

// CheckExec: exactly one invocation for the innermost active command with the
// returned remaining arguments.
func CheckExec(c *ParseCase, rr *RealResult, ref *RefResult) string {
	log := rr.B.ExecLog
	if ref.ExecCmd != "" {
		if len(log) != 1 || log[0].Cmd != ref.ExecCmd {
			return fmt.Sprintf("execution log %v, expected exactly one run of %s", log, ref.ExecCmd)
		}
		if !strSliceEq(log[0].Args, rr.Rest) {
			return fmt.Sprintf("Execute received %q but the parser returned %q", log[0].Args, rr.Rest)
		}
	} else if len(log) != 0 {
		return fmt.Sprintf("execution log %v, expected none (innermost command is not executable)", log)
	}
	if c.CmdHandler {
		if len(rr.CmdHand) != 1 {
			return fmt.Sprintf("CommandHandler invoked %d times, expected once", len(rr.CmdHand))
		}
		h := rr.CmdHand[0]
		if h.Cmd != ref.ExecCmd || h.NilCmd != (ref.ExecCmd == "") {
			return fmt.Sprintf("CommandHandler received command %q (nil=%v), expected %q", h.Cmd, h.NilCmd, ref.ExecCmd)
		}
		if !strSliceEq(h.Args, rr.Rest) {
			return fmt.Sprintf("CommandHandler received %q but the parser returned %q", h.Args, rr.Rest)
		}
	}
	return ""
}
