package props

import (
	"fmt"
	"strconv"
	"strings"
	"testing"

	flags "github.com/jessevdk/go-flags"
	"pgregory.net/rapid"
)

// C03: unconsumed arguments are conserved, in order.

var c03Decl = &GenCfg{Depth: 2, Fanout: 2, MaxOpts: 3, MaxGroups: 1, NestGroups: 1, Kinds: []Kind{KBool, KString, KInt, KStringSlice, KBoolSlice, KMapSS, KFloat64, KTri, KUpper, KToggle},
	Pos: true, PosPct: 65, Ns: true, Req: 0, OptArg: true, Aliases: true, SubOpt: 60, NonASCII: true,
	ParserOpts: []flags.Options{flags.PassDoubleDash, flags.PassAfterNonOption, flags.IgnoreUnknown}}

var c03Argv = &ArgvCfg{MaxItems: 3, WOpt: 25, WCluster: 4, WCmd: 4, WPlain: 30, WTerm: 8, WUnknown: 14, WJunk: 8, WRepeat: 5, BadVal: 0, Quote: 5, TermPos: 25}

var _ = Register("C03", func() interface{} { return new(ParseCase) }, func(c interface{}) string { return c03Oracle(c.(*ParseCase)) })

// isSubsequence reports whether sub occurs in seq in order, and returns the
// number of elements of seq left over.
func isSubsequence(sub, seq []string) (bool, int) {
	i := 0
	for _, s := range seq {
		if i < len(sub) && sub[i] == s {
			i++
		}
	}
	return i == len(sub), len(seq) - len(sub)
}

func c03Oracle(c *ParseCase) string {
	st := S("C03")
	ref := Ref(&RefInput{D: c.D, Args: c.Args, Handler: c.Handler})
	if ref.Undetermined != "" {
		// R declines to predict; the model-free part still applies: whatever is
		// returned must consist of argv tokens, verbatim and in order
		st.Label("R undetermined (" + ref.Undetermined + "): model-free check only")
		rr := RunReal(c.D, c.Args, nil, &RealCfg{CmdHandler: c.CmdHandler, Handler: c.Handler, ExecErr: c.execErr()})
		if rr.Panic != "" || rr.SetupErr != nil || rr.Err != nil {
			return ""
		}
		var bound []string
		allString := true
		for cm, k := &c.D.Root, 0; cm != nil; k++ {
			if cm.Pos != nil {
				for _, pa := range cm.Pos.Args {
					f := rr.B.PosVal[cm.ID+"/"+pa.Field]
					switch pa.Kind {
					case KString:
						if f.String() != "" {
							bound = append(bound, f.String())
						}
					case KStringSlice:
						bound = append(bound, f.Interface().([]string)...)
					default:
						allString = false
					}
				}
			}
			var next *Cmd
			chain := rr.B.ActiveChain()
			if k < len(chain) {
				for i := range cm.Cmds {
					if cm.Cmds[i].Name == chain[k] {
						next = &cm.Cmds[i]
					}
				}
			}
			cm = next
		}
		seq := rr.Rest
		if allString {
			seq = append(append([]string{}, bound...), rr.Rest...)
		}
		if ok, _ := isSubsequence(seq, c.Args); !ok {
			return fmt.Sprintf("passed-through tokens %q (positionals then remaining) are not argv tokens in their original order: argv %q", seq, c.Args)
		}
		for _, e := range rr.B.ExecLog {
			if !strSliceEq(e.Args, rr.Rest) {
				return fmt.Sprintf("Execute received %q but the parser returned %q", e.Args, rr.Rest)
			}
		}
		return ""
	}
	rr := RunReal(c.D, c.Args, nil, &RealCfg{CmdHandler: c.CmdHandler, Handler: c.Handler, ExecErr: c.execErr()})
	if rr.Panic != "" || rr.SetupErr != nil {
		st.Label("skip: panic or setup error")
		return ""
	}
	if c.ExecErr != "" && ref.Err == nil && rr.Err == c.execErr() && (len(rr.B.ExecLog) > 0 || len(rr.CmdHand) > 0) {
		// the parse as such succeeded and the command reported an error of its own:
		// what is returned beside it is still what the command was given
		st.Label("command returned an error of its own (" + c.ExecErr + ")")
		if !strSliceEq(rr.Rest, ref.Rest) {
			return fmt.Sprintf("the command failed with its own error (%s); remaining arguments returned %q, expected %q", c.ExecErr, rr.Rest, ref.Rest)
		}
		for _, e := range rr.B.ExecLog {
			if !strSliceEq(e.Args, rr.Rest) {
				return fmt.Sprintf("Execute received %q but the parser returned %q beside the command's error", e.Args, rr.Rest)
			}
		}
		for _, e := range rr.CmdHand {
			if !strSliceEq(e.Args, rr.Rest) {
				return fmt.Sprintf("CommandHandler received %q but the parser returned %q beside the command's error", e.Args, rr.Rest)
			}
		}
		return ""
	}
	if rr.Err == nil && ref.Err != nil && strings.HasPrefix(ref.Err.Why, "positional conversion of ") {
		// the parse succeeded although a passed-through token falls on a positional
		// field it cannot be converted to: that token was neither bound nor returned
		tokQ := strings.TrimPrefix(ref.Err.Why, "positional conversion of ")
		if tk, err := strconv.Unquote(tokQ); err == nil {
			n := 0
			for _, a := range c.Args {
				if a == tk {
					n++
				}
			}
			m := 0
			for _, a := range rr.Rest {
				if a == tk {
					m++
				}
			}
			if m < n {
				return fmt.Sprintf("token %q was dropped: it cannot be bound to the pending positional (%s), the parse succeeded, and the remaining arguments %q hold it %d time(s) of %d", tk, ref.Err.Why, rr.Rest, m, n)
			}
		}
	}
	if rr.Err != nil || ref.Err != nil {
		st.Label("skip: not a successful parse")
		return ""
	}
	st.Label("success")
	if !strSliceEq(rr.Rest, ref.Rest) {
		return fmt.Sprintf("remaining arguments %q, expected %q", rr.Rest, ref.Rest)
	}
	if m := CheckPositionals(rr, ref); m != "" {
		return m
	}
	// what the executed command / handler saw
	for _, e := range rr.B.ExecLog {
		if !strSliceEq(e.Args, rr.Rest) {
			return fmt.Sprintf("Execute received %q but the parser returned %q", e.Args, rr.Rest)
		}
	}
	for _, e := range rr.CmdHand {
		if !strSliceEq(e.Args, rr.Rest) {
			return fmt.Sprintf("CommandHandler received %q but the parser returned %q", e.Args, rr.Rest)
		}
	}
	// model-free conservation: positional-bound tokens (string fields hold
	// them verbatim) followed by the remaining arguments form a subsequence
	// of argv, and what is left out is what was consumed.
	allString := true
	var bound []string
	chain := append([]*Cmd{&c.D.Root}, ref.Chain...)
	for _, cm := range chain {
		if cm.Pos == nil {
			continue
		}
		for _, pa := range cm.Pos.Args {
			f := rr.B.PosVal[cm.ID+"/"+pa.Field]
			switch pa.Kind {
			case KString:
				// a string field that was never bound holds ""; bound
				// fields are identified through R's count below
				bound = append(bound, f.String())
			case KStringSlice:
				bound = append(bound, f.Interface().([]string)...)
			default:
				allString = false
			}
		}
	}
	if allString {
		// drop trailing unbound string fields (R knows how many were bound)
		if len(bound) >= len(ref.PosBound) {
			bound = bound[:0]
			bound = append(bound, ref.PosBound...)
		}
		seq := append(append([]string{}, bound...), rr.Rest...)
		ok, left := isSubsequence(seq, c.Args)
		if !ok {
			return fmt.Sprintf("positional-bound tokens %q + remaining %q are not a subsequence of argv %q", bound, rr.Rest, c.Args)
		}
		consumed := 0
		for _, cl := range ref.Class {
			if cl == TcOption || cl == TcOptArg || cl == TcCommand || cl == TcTerminator {
				consumed++
			}
		}
		if left != consumed {
			return fmt.Sprintf("argv %q: %d tokens neither passed through nor bound, but %d were consumed as option/argument/command/terminator", c.Args, left, consumed)
		}
		st.Label("conservation checked model-free")
	}
	// classification for evidence
	pass := len(ref.PosBound) + len(ref.Rest)
	termPending, acrossSwitch, ignored, pano := false, false, false, false
	for i, cl := range ref.Class {
		if cl == TcTerminator && len(ref.PosBound) > 0 {
			for j := i + 1; j < len(ref.Class); j++ {
				if ref.Class[j] == TcPositional {
					termPending = true
				}
			}
		}
		if (cl == TcRest || cl == TcPositional) && isOptSyntax(c.Args[i]) && c.D.Has(flags.IgnoreUnknown) {
			ignored = true
		}
		if cl == TcCommand {
			for j := 0; j < i; j++ {
				if ref.Class[j] == TcPositional || ref.Class[j] == TcRest {
					acrossSwitch = true
				}
			}
		}
	}
	if c.D.Has(flags.PassAfterNonOption) && pass > 0 {
		pano = true
	}
	for k, v := range map[string]bool{"terminator with pending positional": termPending, "pass-through before a command switch": acrossSwitch, "ignored unknown option passed through": ignored, "PassAfterNonOption trigger": pano} {
		if v {
			st.Label(k)
		}
	}
	if pass >= 2 && (termPending || acrossSwitch || ignored || pano) {
		st.NonTrivial(c.Key(), map[string]interface{}{"args": c.Args, "opts": c.D.Opts, "rest": rr.Rest, "bound": ref.PosBound})
	}
	return ""
}

func TestC03(t *testing.T) {
	S("C03").Rule = "declaration (positionals on root and commands, optional sub-commands, aliases) x argv rich in plain words, '', '-', '--', '---x', option-looking tokens after the terminator, unknown options x all 8 combinations of PassDoubleDash/PassAfterNonOption/IgnoreUnknown; oracle: remaining args and positional fields == R, Execute/CommandHandler args == returned args, model-free subsequence+conservation when positionals are strings. non-trivial: success with >= 2 passed-through tokens and (terminator with pending positional | pass-through before a command switch | ignored unknown option | PassAfterNonOption trigger); distinct by (declaration signature, argv)"
	runProp(t, "C03", func(t *rapid.T) *ParseCase {
		c := genParseCase(t, c03Decl, c03Argv)
		c.CmdHandler = rapid.Bool().Draw(t, "cmdhandler")
		c.ExecErr = []string{"", "", "", "plain", "help"}[rapid.IntRange(0, 4).Draw(t, "execErr")]
		// an unknown-option handler installed although IgnoreUnknown is set:
		// the pass-through policy applies, nothing may be lost to the handler
		if c.D.Has(flags.IgnoreUnknown) && rapid.IntRange(0, 3).Draw(t, "idleHandler") == 0 {
			c.Handler = &HandlerSpec{Mode: "drop1"}
		}
		return c
	}, c03Oracle)
}
