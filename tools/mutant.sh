#!/bin/bash
# usage: tools/mutant.sh <patch-file | revert:<commit>> <PROP>...
# Applies a patch (or reverts a fix commit) in a scratch copy of /repo outside
# /repo and /verif, checks that it still compiles and whether it passes the
# repository's own tests, runs the given checks (quick tier) against the copy
# and removes the copy. Prints one line per check: CAUGHT / MISSED / INCONCLUSIVE.
set -u
what="$1"; shift
export GOFLAGS=-mod=mod GOPROXY=off GOSUMDB=off GOTOOLCHAIN=local
scratch=$(mktemp -d /tmp/mutant.XXXXXX)
trap 'rm -rf "$scratch"' EXIT
git -C /repo archive HEAD | tar -x -C "$scratch"
case "$what" in
  revert:*) c="${what#revert:}"; ( cd /repo && git show "$c" ) | ( cd "$scratch" && patch -R -p1 -s --no-backup-if-mismatch ) || { echo "PATCH-FAILED $what"; exit 3; } ;;
  *) ( cd "$scratch" && patch -p1 -s --no-backup-if-mismatch < "$what" ) || { echo "PATCH-FAILED $what"; exit 3; } ;;
esac
( cd "$scratch" && go build ./... ) || { echo "MUTANT-DOES-NOT-COMPILE $what"; exit 3; }
if ( cd "$scratch" && go test -count=1 . >/dev/null 2>&1 ); then ut=pass; else ut=FAIL; fi
for p in "$@"; do
  out=$(cd /verif && ./check "$p" --repo "$scratch" --noevidence 2>&1); rc=$?
  case $rc in
    1) echo "CAUGHT   $p  unit-tests=$ut  $(echo "$out" | grep -m1 -o 'VIOLATION.*')";;
    0) echo "MISSED   $p  unit-tests=$ut";;
    *) echo "INCONCLUSIVE $p rc=$rc unit-tests=$ut"; echo "$out" | tail -5;;
  esac
done
