#!/bin/bash
# usage: tools/seeded.sh <dir with patch.diff + demo_test.go> <PROP> [more PROPs...]
# Confirms an independently written breaking change in a scratch copy of /repo
# (outside /repo and /verif): demo passes on the clean tree; patch applies and
# compiles; the repository's own tests still pass with it; the demo fails with
# it. Then runs the given checks (quick tier) against the patched copy.
set -u
dir="$(cd "$1" && pwd)"; shift
export GOFLAGS=-mod=mod GOPROXY=off GOSUMDB=off GOTOOLCHAIN=local
scratch=$(mktemp -d /tmp/seeded-run.XXXXXX)
trap 'rm -rf "$scratch"' EXIT
git -C /repo archive HEAD | tar -x -C "$scratch"
res=""
cp "$dir/demo_test.go" "$scratch/zz_demo_test.go"
if ( cd "$scratch" && go test -count=1 . >/dev/null 2>&1 ); then res="$res demo-passes-clean=yes"; else res="$res demo-passes-clean=NO"; fi
rm -f "$scratch/zz_demo_test.go"
if ! ( cd "$scratch" && git init -q . 2>/dev/null; git apply --whitespace=nowarn "$dir/patch.diff" 2>/dev/null || patch -p1 -s --no-backup-if-mismatch < "$dir/patch.diff" ); then echo "SEEDED $dir PATCH-FAILED"; exit 3; fi
rm -rf "$scratch/.git"
if ! ( cd "$scratch" && go build ./... 2>/dev/null ); then echo "SEEDED $dir DOES-NOT-COMPILE"; exit 3; fi
if ( cd "$scratch" && go test -count=1 ./... >/dev/null 2>&1 ); then res="$res existing-tests-pass=yes"; else res="$res existing-tests-pass=NO"; fi
cp "$dir/demo_test.go" "$scratch/zz_demo_test.go"
if ( cd "$scratch" && go test -count=1 . >/dev/null 2>&1 ); then res="$res demo-fails-with-change=NO"; else res="$res demo-fails-with-change=yes"; fi
rm -f "$scratch/zz_demo_test.go"
echo "SEEDED $dir:$res"
for p in "$@"; do
  out=$(cd /verif && ./check "$p" --repo "$scratch" --noevidence 2>&1); rc=$?
  case $rc in
    1) echo "  CAUGHT   $p  $(echo "$out" | grep -m1 -o 'VIOLATION.*')";;
    0) echo "  MISSED   $p";;
    *) echo "  INCONCLUSIVE $p rc=$rc"; echo "$out" | tail -5;;
  esac
done
