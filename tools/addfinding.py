#!/usr/bin/env python3
"""tools/addfinding.py <PROP> <ID> fixed <commit> <what>   |   <PROP> <ID> known - <what> <example.json>"""
import json,sys
prop,fid,status,commit,what=sys.argv[1:6]
k=json.load(open('/verif/known_findings.json'))
k=[e for e in k if e['id']!=fid]
e={"property":prop,"id":fid,"status":status,"what":what}
if status=="fixed":
    e["commit"]=commit; e["line"]="fixed: property=%s %s %s"%(prop,commit,what)
else:
    e["example"]=json.load(open(sys.argv[6]))["case"]
k.append(e)
json.dump(k,open('/verif/known_findings.json','w'),indent=1,ensure_ascii=False)
