#!/usr/bin/env python3
"""Runs tools/seeded.sh for every change under /verif/seeded (or the ids given)
and records the outcome in its meta.json (confirmed_by_me, caught_by)."""
import json, os, subprocess, sys, glob
ids = sys.argv[1:] or sorted(os.path.basename(d.rstrip('/')) for d in glob.glob('/verif/seeded/C*/'))
for n in ids:
    d = '/verif/seeded/' + n
    prop = n.split('-')[0]
    out = subprocess.run(['/verif/tools/seeded.sh', d, prop], stdout=subprocess.PIPE, stderr=subprocess.STDOUT, text=True).stdout
    m = json.load(open(d + '/meta.json'))
    head = [l for l in out.splitlines() if l.startswith('SEEDED')]
    res = [l.strip() for l in out.splitlines() if l.strip().startswith(('CAUGHT', 'MISSED', 'INCONCLUSIVE'))]
    m['confirmed_by_me'] = ("tools/seeded.sh seeded/%s %s on a scratch copy of /repo HEAD under /tmp: " % (n, prop)) + (head[0].split(':', 1)[1].strip() if head else out[-300:])
    m['caught_by'] = '; '.join(r.replace('/verif/', '') for r in res) or 'not run'
    json.dump(m, open(d + '/meta.json', 'w'), indent=1, ensure_ascii=False)
    print(n, m['caught_by'], flush=True)
