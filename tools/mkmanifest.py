#!/usr/bin/env python3
"""Regenerates /verif/MANIFEST.json from the table below (kept next to the driver
so the manifest never drifts from what ./check can run)."""
import json, os, sys
ROOT = os.path.dirname(os.path.dirname(os.path.abspath(__file__)))

# id -> (category, technique, level text, level note, design ref)
RNOTE = "trusts the hand-written reference semantics R (harness/props/ref.go) and reference conversions; cases R declares undetermined (invalid UTF-8 in a short cluster, unknown rune after known flags under a pass-through policy, unsettled numeric forms) are skipped and counted; declarations are reflect.StructOf types"

CHECKS = {
 "C01": ("exploration",
         "property-based testing (rapid): generated declarations x argument vectors compared field by field with a reference semantics",
         "Generated search over declaration x argv (all option types, nested namespaced groups, commands by tag and programmatic, mixed spellings, clusters, repeated occurrences). After every successful parse each option field, the callback log and every untagged field are compared with the reference semantics R. Holds on everything explored; no proof of absence.",
         RNOTE, "DESIGN.md §4 C01"),
 "C02": ("exploration",
         "property-based testing (rapid): metamorphic relation between two admissible spellings of one option occurrence on the real parser",
         "Generated search over declaration x surrounding argv x option x hostile value x ordered pair of admissible spellings (and cluster vs separate flags); both vectors are parsed by the real parser on fresh builds and the complete outcomes (values, callbacks, remaining args, chain, error type+message) must be identical. Inadmissible pairs (the statement's documented exceptions, token identity) are excluded by construction and counted.",
         "admissibility rules are taken from the statement; R is used only to confirm the occurrence is reached as an option (not in a pass-through region); reflect.StructOf declarations",
         "DESIGN.md §4 C02"),
 "C03": ("exploration",
         "property-based testing (rapid): reference-model comparison plus model-free subsequence/conservation invariant over remaining arguments",
         "Generated search over argv rich in pass-through tokens under all 8 combinations of PassDoubleDash/PassAfterNonOption/IgnoreUnknown; remaining args, positional fields and the args seen by Execute/CommandHandler are compared with R, and - when positionals are strings - a model-free subsequence + token-count conservation check is applied.",
         RNOTE, "DESIGN.md §4 C03"),
 "C04": ("exploration",
         "property-based testing (rapid) with hostile structured argv plus native coverage-guided fuzzing (go test -fuzz) of raw byte argv; oracle: no panic/hang, reference error typing, fd-level stdout/stderr capture",
         "Generated search over declarations (every option type, choices on flags) x hostile argv x all 32 parser option sets, and (thorough) a 90 s 16-core coverage-guided fuzz campaign feeding arbitrary bytes as argv to 12 fixed rich declarations. Every call must return (recover + 20 s watchdog), errors must be *flags.Error of the type R attributes (weak documented-type rule where R is undetermined or on raw fuzz input), and fds 1/2 captured at descriptor level must be empty without PrintErrors and carry exactly the error text once on the right stream with it. Cases also include environment values (valid and invalid), error-returning option callbacks that fail, and Execute/CommandHandler returning nil, a foreign error or an ErrHelp-typed error.",
         RNOTE + "; never-hangs is bounded by a watchdog, not proved; process termination (os.Exit) would surface as an inconclusive run, not a violation",
         "DESIGN.md §4 C04"),
 "C05": ("exploration",
         "property-based testing (rapid): every subset of value sources per option against the reference ranking cli > ini > env > default > initial, in three INI read orders",
         "Generated search over options of every non-callback type with independent subsets of {initial value, default tags, environment (unset/set/empty, env-delim, env-namespaces), INI entries, command-line occurrences} and INI read in normal mode before, as-defaults before, and as-defaults after the command line; every field is compared with the value of the highest-ranked present source, winner replacing (not extending) lower sources for slices and maps.",
         RNOTE + "; INI entries are resolved with the reference INI resolution; rejected env/default values only require the parse to fail (C11 checks the error)",
         "DESIGN.md §4 C05"),
 "C06": ("exploration",
         "property-based testing (rapid): reference missing-set vs names parsed from ErrRequired messages",
         "Generated search over required marks at every tree level, positional count constraints and argv/env/default supply subsets; ErrRequired must occur exactly when R finds something missing, name exactly R's set, and nothing may be executed.",
         RNOTE, "DESIGN.md §4 C06"),
 "C07": ("exploration",
         "property-based testing (rapid): near-miss unknown option injection under three policies against reference semantics and a handler call log",
         "Generated search over unknown option tokens (near misses, sibling/not-yet-named commands' options) at random positions under policies none / IgnoreUnknown / handler; error naming, verbatim pass-through with continued parsing, and the exact handler call log (name, inline argument, unconsumed args, returned slice parsed next) are compared with R. A third of the plain-policy cases first parse another vector on the same parser object; where R is undetermined under IgnoreUnknown the model-free 'verbatim, in order' check still applies.",
         RNOTE, "DESIGN.md §4 C07"),
 "C08": ("exploration",
         "property-based testing (rapid): reference active-chain/scoping comparison plus metamorphic alias and option-commutation relations on the real parser",
         "Generated search over command trees (depth <= 4, aliases, optional marks, clashes, tag/programmatic) and interleaved argv; active chain, scoped values and command errors compared with R; two model-free metamorphic relations (alias<->name, ancestor option moved across a command word) checked on the real parser.",
         RNOTE, "DESIGN.md §4 C08"),
 "C09": ("fault_enumeration",
         "fault injection enumerated over every position of generated valid vectors (rapid-generated bases), execution-log invariant",
         "For every generated base vector that R accepts, every fault kind is injected at every position (and every command/option/positional token is removed or replaced); a rejected variant must leave the Execute and CommandHandler logs empty, an accepted one must show exactly one invocation of the innermost executable command with the returned args and its error unchanged; completion mode must execute nothing. Faults include unknown options, help, bad/out-of-range values, invalid choices, missing/option-looking arguments, removed or replaced command words, removed options and positionals, unconvertible positionals (also behind '--'); Execute returns nil, a foreign error or an ErrHelp-typed error. Enumeration is complete per base within the listed fault kinds; bases are sampled.",
         RNOTE, "DESIGN.md §4 C09"),
 "C10": ("exploration",
         "property-based testing (rapid): positional binding compared with a reference semantics",
         "Generated search over positional layouts on parser and commands and argv interleaving typed tokens, options and the terminator; every positional field and the overflow into remaining args are compared with R.",
         RNOTE, "DESIGN.md §4 C10"),
 "C11": ("exploration",
         "property-based testing (rapid) with boundary-biased value strings, exhaustive enumeration of integer limits per type and base, and native fuzzing; oracle: independent arithmetic references, three-valued",
         "Generated search over (28 option types x bases 2..36 x choice sets x value text) delivered through --opt=value, default tags and the environment, plus a complete enumeration of integer type x base x limit+-{0,1} every run and (thorough) a 60 s coverage-guided fuzz campaign over (type, base, bytes). Accept/reject and the stored value are compared with an own digit scanner over math/big and with strconv.ParseFloat/time.ParseDuration at the declared width; rejections must be ErrMarshal/ErrInvalidChoice naming the option and listing every choice.",
         "trusts strconv.ParseFloat, time.ParseDuration, math/big; forms on which Go's conventions and the documentation differ ('+' or '-0' on unsigned) are don't-care: only 'if accepted then denoted value' is checked",
         "DESIGN.md §4 C11"),
 "C12": ("exploration",
         "property-based testing (rapid): write -> read round trip on a fresh parser over the same generated declaration, for generated values and all IniOptions",
         "Generated search over declarations (nested groups, commands, ini-name/no-ini/hidden marks, default tags, multi-line descriptions) and values assigned after defaults were applied (arbitrary byte strings, numeric limits in bases 2-36, NaN/Inf, slices, maps) under all eight IniOptions; the written text must be readable by a fresh parser and, after defaults are applied, every written option must equal the original.",
         "fresh structs start from zero values (program-supplied initial field contents are outside 'declarations'); -0 and +0 are identified; map keys are restricted as the statement's quantifier says; crossing ini-names are not generated here (C13 covers resolution); the custom marshaler type used is a true inverse pair",
         "DESIGN.md §4 C12"),
 "C13": ("exploration",
         "property-based testing (rapid): reference name/section resolution plus differential comparison of INI reading against the equivalent command-line flags",
         "Generated search over declarations with crossing names, INI texts using all four key naming forms and all section spellings, every option type, repeated keys, in normal and as-defaults mode. Each entry's target option and stored value are compared with the reference resolution (ini-name case-insensitively > field name > namespaced long name > short name; section by description or dotted command path; header-less entries reach the parser's own groups only), untouched options must keep their contents, and per option the same entries passed as --name=value to a fresh parser must give the same field value.",
         "trusts the reference INI resolution (harness/props/iniref.go) written from the documentation of IniParser.Parse and the property statement; entries with no command-line spelling ('flag = false') are compared with the reference only; no-ini options are not targeted",
         "DESIGN.md §4 C13"),
 "C14": ("exploration",
         "property-based testing (rapid): metamorphic noise-invariance of valid INI files and single-fault line-number oracle; native coverage-guided fuzzing of raw bytes for totality",
         "Generated search over valid INI files (entries resolved and accepted by the reference semantics) with noise inserted (blank lines, both comment styles, 70 kB comment lines, blanks around names/=/values/headers, indentation longer than the read buffer, CRLF, a missing final newline, a last line of exactly 4095..70000 bytes): the option fields after the noisy file must equal those after the clean file; with exactly one faulty line at a random position the error must be an *IniError carrying that line's 1-based number (ErrUnknownGroup for a section), and under IgnoreUnknown unknown keys/sections are skipped while everything else is applied. Thorough adds a 90 s 16-core fuzz campaign over arbitrary bytes (no panic, error type *IniError or *flags.Error).",
         "validity of the generated clean file is decided by the reference INI resolution (harness/props/iniref.go); faults are constructed so that exactly one line is wrong; arbitrarily long lines are exercised up to ~70 kB",
         "DESIGN.md §4 C14"),
 "C15": ("exploration",
         "property-based testing (rapid): each generated scenario is evaluated 40 times on fresh builds (Go randomises every map range) and all outputs must be byte-identical; thorough adds a two-process digest comparison",
         "Generated search over scenarios where order can leak (multi-entry maps rendered in help, the same option set from several INI sections, simultaneous faults, required/command lists, completion lists). Help, man page, INI output, error type+message, remaining args, all option values, INI error/values and completion items are compared across 40 evaluations per scenario within a process, and (thorough) across two processes for 300 scenarios.",
         "iteration orders are sampled by the runtime's own randomisation, not enumerated: an order dependence on a 2-entry map is missed by 40 repetitions with probability about 0.5% per scenario; SOURCE_DATE_EPOCH is pinned for the man page; terminal width pinned to 100",
         "DESIGN.md §4 C15"),
 "C16": ("exploration",
         "property-based testing (rapid): declarations made of unique marker words; presence of every visible marker in its help/man row and absence of every hidden marker and masked default",
         "Generated search over declarations whose every string attribute is a unique marker, with hidden marks on options/groups/commands at any depth, default masks, env keys under env-namespaces, choices, value names, positionals, and every selectable active chain (help obtained as the ErrHelp message of '<chain> --help'). Each visible option row must carry short+namespaced long name, value name, choices, description and beside it default/mask and [$ENV]; described positionals and visible sub-commands (with aliases) must be listed; no marker of a hidden item and no masked default may occur in help or man page; the man page must list every visible option and command of the tree.",
         "help is rendered at width 400 through a pty so rows are not wrapped (cases are skipped and counted if no pty); 'non-hidden group' is read as the group's own hidden mark, nested groups of a hidden group are generated hidden too; for chains through a hidden command only the man-page and leak checks apply; man-page details it never renders (choices, positionals) are not demanded",
         "DESIGN.md §4 C16"),
 "C17": ("exploration",
         "property-based testing (rapid): structural layout predicates over help rendered at generated terminal widths through a real pseudo-terminal",
         "Generated search over names in five scripts, descriptions with long words/newlines/blank paragraphs, nesting and terminal widths 1..400 (real pty on fd 0); the rendered help must not panic, be valid UTF-8, start all descriptions in one column (characters), indent continuation lines to it, conserve the words in order, and respect the width when >= 10 columns remain.",
         "column and width are measured in characters (the unit the library's own alignment uses); tabs inside descriptions and '-' inside description words are not generated (hyphen at line end is then unambiguously a hard break); requires /dev/ptmx, otherwise cases are skipped and counted",
         "DESIGN.md §4 C17"),
 "C18": ("exploration",
         "property-based testing (rapid): expected completion set derived from the reference semantics' state after the prefix; acceptance of offered items by the real parser; context agreement",
         "Generated search over declarations with completing and plain types, hidden options/commands, commands depth <= 3 with aliases and clashes, prefixes that R parses without error and every kind of partial last word. The completion list must equal the set R derives (non-hidden in-scope options for a partial long name or bare dash; the type's completions re-attached to the spelling for values of completing options/positionals; non-hidden sub-command names otherwise), be sorted, contain only items the real parser does not reject as unknown at that position, and the real parser's active chain on the prefix must equal R's.",
         RNOTE + "; positions the statement does not settle (value of a non-completing type, short clusters with a non-empty match, words after the terminator) get only the sorted/accepted/context checks; hidden groups are not generated (only hidden options and commands)",
         "DESIGN.md §4 C18"),
 "C19": ("exploration",
         "property-based testing (rapid): tags built by construction with random escape spellings, single-fault mutations and declaration faults, judged by a reference tag scanner; native fuzzing of raw tag bytes",
         "Generated search over declarations whose tag values are arbitrary strings rendered with per-character random escapes and spacing, with repeated keys, one mutation at a random position, or one declaration fault (long short name, default on a flag, duplicate short / namespaced long name incl. namespace-created collisions). A reference scanner of the conventional tag syntax decides well-formedness; well-formed declarations must yield exactly the declared public model (Option/Group/Command/Arg fields, order, field binding), faulty ones the corresponding typed error from AddGroup/AddCommand and from NewParser+ParseArgs; never a panic. Thorough adds a 60 s fuzz campaign over raw tag bytes.",
         "the reference scanner (harness/props/c19_test.go) is trusted; tag forms on which conventions differ (control characters or an empty key, marks spelled false/no/0) are skipped and counted; duplicate detection is checked within one declaration unit (one added struct or one command struct), as the statement says",
         "DESIGN.md §4 C19"),
 "C20": ("exploration",
         "property-based testing (rapid): generated command-name sets x words against a reference rune Levenshtein oracle and a parsed error message",
         "Generated search over command-name sets (visible/hidden, multi-byte, tag and programmatic declaration) and words (random, 1-3 edits of a name, empty argv); every ErrUnknownCommand/ErrCommandRequired message is parsed and compared with an independent edit-distance computation: suggestion must be a nearest visible command within the threshold, otherwise the sorted visible list. Holds on everything explored; not a proof.",
         "trusts the reference Levenshtein written for the check and the message grammar read from the documentation/tests; threshold unit (bytes vs characters) tolerated either way for multi-byte names",
         "DESIGN.md §4 C20"),
}

ALL = ["C%02d" % i for i in range(1, 21)]
NOT_YET = "check not built yet in this session (planned, see DESIGN.md §8); not claimed until its check exists and is silent on the unchanged tree"

def main():
    checks = []
    for pid in ALL:
        if pid not in CHECKS:
            continue
        cat, tech, text, note, ref = CHECKS[pid]
        checks.append({
            "property_id": pid,
            "quick_cmd": "./check %s --tier quick" % pid,
            "thorough_cmd": "./check %s --tier thorough" % pid,
            "evidence_file": "/verif/evidence/%s.json" % pid,
            "replay_cmd_template": "./check %s --replay {path}" % pid,
            "engine": "rapid-harness",
            "level_claimed": {"category": cat, "text": text, "design_ref": ref},
            "level_note": note,
            "technique": tech,
        })
    m = {
        "version": 1,
        "setup_cmd": "cd /verif/harness/props && GOFLAGS=-mod=mod GOPROXY=off GOSUMDB=off GOTOOLCHAIN=local go test -c -o /dev/null .",
        "hooks": {
            "guard": "verif",
            "enable": "no hooks are needed: every observation point is reachable through the public API, fds 0-2 and the environment; checks build /repo unmodified via the harness go.mod replace directive",
            "baseline_off_cmd": "cd /repo && go test -json -vet=off -count=1 -timeout 25m ./...",
            "source_commits": [],
            "add_only": True,
        },
        "engines": [{
            "name": "rapid-harness",
            "path": "/verif/harness/props",
            "serves_properties": [c["property_id"] for c in checks],
            "kind_free_text": "Go test binary: pgregory.net/rapid v1.3.0 property tests + native go fuzz targets over declarations generated with reflect.StructOf, driven by /verif/check (python3, stdlib)",
        }],
        "checks": checks,
        "notes": "Property-based testing and fuzzing only. ./check <ID> --tier quick|thorough; VERIF_SEED selects the rapid seeds. known_findings.json lists genuine defects: 29 fixed in /repo by 'fix:' commits (a fixed entry suppresses nothing), 1 known and not repaired (F-C12-7, printed as a KNOWN-FINDING line by ./check C12, its class excluded by construction and counted in the evidence).",
        "not_applicable": [{"property_id": p, "reason": NOT_YET} for p in ALL if p not in CHECKS],
    }
    with open(os.path.join(ROOT, "MANIFEST.json"), "w") as f:
        json.dump(m, f, indent=1)
        f.write("\n")

if __name__ == "__main__":
    main()
