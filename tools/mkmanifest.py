#!/usr/bin/env python3
"""Regenerates /verif/MANIFEST.json from the table below (kept next to the driver
so the manifest never drifts from what ./check can run)."""
import json, os, sys
ROOT = os.path.dirname(os.path.dirname(os.path.abspath(__file__)))

# id -> (category, technique, level text, level note, design ref)
CHECKS = {
 "C20": ("exploration",
         "property-based testing (rapid): generated command-name sets x words against a reference rune Levenshtein oracle and a parsed error message",
         "Generated search over command-name sets (visible/hidden, multi-byte, tag and programmatic declaration) and words (random, 1-3 edits of a name, empty argv); every ErrUnknownCommand/ErrCommandRequired message is parsed and compared with an independent edit-distance computation: suggestion must be a nearest visible command within the threshold, otherwise the sorted visible list. Holds on everything explored; not a proof.",
         "trusts the reference Levenshtein written for the check and the message grammar read from the documentation/tests; threshold unit (bytes vs characters) tolerated either way for multi-byte names",
         "DESIGN.md §4 C20"),
}

ALL = ["C%02d" % i for i in range(1, 21)]
NOT_YET = "check not built yet in this session (planned, see DESIGN.md §8); not claimed until its check exists and is silent on the unchanged tree"

def main():
    checks = []
    for pid in ALL:
        if pid not in CHECKS:
            continue
        cat, tech, text, note, ref = CHECKS[pid]
        checks.append({
            "property_id": pid,
            "quick_cmd": "./check %s --tier quick" % pid,
            "thorough_cmd": "./check %s --tier thorough" % pid,
            "evidence_file": "/verif/evidence/%s.json" % pid,
            "replay_cmd_template": "./check %s --replay {path}" % pid,
            "engine": "rapid-harness",
            "level_claimed": {"category": cat, "text": text, "design_ref": ref},
            "level_note": note,
            "technique": tech,
        })
    m = {
        "version": 1,
        "setup_cmd": "cd /verif/harness/props && GOFLAGS=-mod=mod GOPROXY=off GOSUMDB=off GOTOOLCHAIN=local go test -c -o /dev/null .",
        "hooks": {
            "guard": "verif",
            "enable": "no hooks are needed: every observation point is reachable through the public API, fds 0-2 and the environment; checks build /repo unmodified via the harness go.mod replace directive",
            "baseline_off_cmd": "cd /repo && go test -json -vet=off -count=1 -timeout 25m ./...",
            "source_commits": [],
            "add_only": True,
        },
        "engines": [{
            "name": "rapid-harness",
            "path": "/verif/harness/props",
            "serves_properties": [c["property_id"] for c in checks],
            "kind_free_text": "Go test binary: pgregory.net/rapid v1.3.0 property tests + native go fuzz targets over declarations generated with reflect.StructOf, driven by /verif/check (python3, stdlib)",
        }],
        "checks": checks,
        "notes": "Property-based testing and fuzzing only. ./check <ID> --tier quick|thorough; VERIF_SEED selects the rapid seeds. known_findings.json lists genuine defects (fixed or known).",
        "not_applicable": [{"property_id": p, "reason": NOT_YET} for p in ALL if p not in CHECKS],
    }
    with open(os.path.join(ROOT, "MANIFEST.json"), "w") as f:
        json.dump(m, f, indent=1)
        f.write("\n")

if __name__ == "__main__":
    main()
