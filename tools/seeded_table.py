#!/usr/bin/env python3
"""Reads seeded/*/meta.json and emits the markdown table of DESIGN.md §6."""
import json, glob, os
rows = []
for d in sorted(glob.glob('/verif/seeded/*/')):
    m = json.load(open(d + 'meta.json'))
    rows.append("| %s | %s | %s | %s |" % (m['id'], m.get('summary', '').replace('|', '/').replace('\n', ' ')[:230],
                                          m.get('needs', '').replace('|', '/').replace('\n', ' ')[:200], m.get('caught_by', '?')))
print("| id | what the change does | what it needs to manifest | result of `./check <property>` (quick tier) |")
print("|----|----------------------|---------------------------|---------------------------------------------|")
print("\n".join(rows))
