#!/usr/bin/env python3
import json,sys
for d in json.load(open(sys.argv[1])):
    print(d['prop'], 'evals', d['evals'], 'nt', len(d.get('nt') or []))
    for k,v in sorted((d.get('labels') or {}).items(), key=lambda kv:-kv[1]): print('   L %8d %s'%(v,k))
    for k,v in sorted((d.get('excluded') or {}).items(), key=lambda kv:-kv[1]): print('   X %8d %s'%(v,k))
